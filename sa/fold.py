"""E3 -- constant folding / partial evaluation over a small folding language.

Nothing from the repository is imported or executed: this is an evaluator for a
restricted subset of the syntax tree (literal tables, if/elif forests over literal
comparisons, exact arithmetic).  Anything outside the language raises `Refuse`.
Numbers are `Fraction` where rational and `Decimal` (100 digits) otherwise.
"""
from __future__ import annotations

import ast
import itertools
from decimal import Decimal, getcontext
from fractions import Fraction

getcontext().prec = 100


class Refuse(Exception):
    """Expression or statement is outside the folding language."""


class HardRefuse(Refuse):
    """Outside the folding language in a way that must end the fold: continuing symbolically would drop a side effect (an in-place
    method of a concrete container that the folder does not model)."""


class Raised(Exception):
    """The folded code raises an exception of this name on this input."""

    def __init__(self, name, node=None):
        super().__init__(name)
        self.name = name
        self.node = node


class TypeTag:
    """Abstract value for a builtin type name (int, str, ...)."""

    def __init__(self, name):
        self.name = name

    def __repr__(self):
        return f"<type {self.name}>"


class Obj:
    """Abstract object with attribute fields (e.g. `self` while folding __init__)."""

    def __init__(self, label="obj", fields=None):
        self.label = label
        self.fields = dict(fields or {})

    def __repr__(self):
        return f"<Obj {self.label} {sorted(self.fields)}>"


class Sym:
    """Symbolic application produced when `Folder.symbolic` is set: a term, not a value."""

    def __init__(self, fn, args=(), kw=None, recv=None, attr=None, index=None):
        self.fn = fn
        self.args = tuple(args)
        self.kw = dict(kw or {})
        # structure behind the text of fn, where there is one: receiver and member of `recv.attr(...)` / `recv.attr`, receiver and
        # folded index of `recv[index]` (index is None when it did not fold) -- read by sa.terms.nf
        self.recv, self.attr, self.index = recv, attr, index

    def walk(self):
        yield self
        for a in list(self.args) + list(self.kw.values()):
            if isinstance(a, Sym):
                yield from a.walk()

    def __repr__(self):
        inner = ", ".join([repr(a) for a in self.args] + [f"{k}={v!r}" for k, v in self.kw.items()])
        return f"{self.fn}({inner})"


class Opaque:
    """A value we know nothing about except an abstract type tag (for isinstance)."""

    def __init__(self, tag, label="", fields=None):
        self.tag = tag
        self.label = label
        self.fields = dict(fields or {})  # attributes the rule chose to make known (e.g. a concrete shape of a symbolic array)

    def __repr__(self):
        return f"<opaque {self.tag} {self.label}>"

    # two mentions of the same class / module member (`darsia.Voxel` here and there) are the same value
    def __eq__(self, other):
        if isinstance(other, Opaque) and self.tag == "callable" and other.tag == "callable":
            return self.label == other.label
        return self is other

    def __ne__(self, other):
        return not self.__eq__(other)

    def __hash__(self):
        return hash((self.tag, self.label)) if self.tag == "callable" else id(self)


def is_num(v):
    return isinstance(v, (int, Fraction, Decimal)) and not isinstance(v, bool)


def dec(v):
    if isinstance(v, Decimal):
        return v
    if isinstance(v, Fraction):
        return Decimal(v.numerator) / Decimal(v.denominator)
    return Decimal(v)


def _coerce(a, b):
    if isinstance(a, Decimal) or isinstance(b, Decimal):
        return dec(a), dec(b)
    if isinstance(a, Fraction) or isinstance(b, Fraction):
        return Fraction(a), Fraction(b)
    return a, b


class Arr:
    """Nested-list model of a literal numpy array (elementwise arithmetic only)."""

    def __init__(self, data):
        self.data = data

    @property
    def shape(self):
        s, d = [], self.data
        while isinstance(d, list):
            s.append(len(d))
            d = d[0] if d else None
        return tuple(s)

    def map(self, f):
        def go(d):
            return [go(x) for x in d] if isinstance(d, list) else f(d)

        return Arr(go(self.data))

    def zip(self, other, f):
        def go(a, b):
            if isinstance(a, list) and isinstance(b, list):
                if len(a) != len(b):
                    raise Refuse("broadcast of unequal literal arrays")
                return [go(x, y) for x, y in zip(a, b)]
            if isinstance(a, list):
                return [go(x, b) for x in a]
            if isinstance(b, list):
                return [go(a, y) for y in b]
            return f(a, b)

        return Arr(go(self.data, other.data))

    def flat(self):
        out = []

        def go(d):
            if isinstance(d, list):
                for x in d:
                    go(x)
            else:
                out.append(d)

        go(self.data)
        return out

    def tolist(self):
        return self.data

    def index(self, idx):
        """numpy basic indexing with ints / slices (one per leading axis), on the nested lists; anything else is refused."""
        idx = idx if isinstance(idx, tuple) else (idx,)

        def go(d, ix):
            if not ix:
                return copy_nested(d)
            i, rest = ix[0], ix[1:]
            if not isinstance(d, list):
                raise Raised("IndexError")
            if isinstance(i, bool) or not isinstance(i, (int, slice)):
                raise Refuse("array index kind")
            if isinstance(i, int):
                try:
                    return go(d[i], rest)
                except IndexError:
                    raise Raised("IndexError")
            return [go(x, rest) for x in d[i]]
        r = go(self.data, idx)
        return Arr(r) if isinstance(r, list) else r

    def __repr__(self):
        return f"Arr{self.shape}"


def copy_nested(d):
    return [copy_nested(x) for x in d] if isinstance(d, list) else d


def _binop(op, a, b):
    if isinstance(a, Arr) or isinstance(b, Arr):
        if not isinstance(a, Arr):
            return b.map(lambda y: _binop(op, a, y))
        if not isinstance(b, Arr):
            return a.map(lambda x: _binop(op, x, b))
        return a.zip(b, lambda x, y: _binop(op, x, y))
    if isinstance(op, ast.Add):
        if isinstance(a, str) and isinstance(b, str):
            return a + b
        if isinstance(a, (list, tuple)) and type(a) is type(b):
            return a + b
        if is_num(a) and is_num(b):
            a, b = _coerce(a, b)
            return a + b
    if isinstance(op, ast.Sub) and is_num(a) and is_num(b):
        a, b = _coerce(a, b)
        return a - b
    if isinstance(op, ast.Mult):
        if is_num(a) and is_num(b):
            a, b = _coerce(a, b)
            return a * b
        if isinstance(a, (str, list, tuple)) and isinstance(b, int) and not isinstance(b, bool):
            return a * b
        if isinstance(b, (str, list, tuple)) and isinstance(a, int) and not isinstance(a, bool):
            return a * b
    if isinstance(op, ast.Div) and is_num(a) and is_num(b):
        if b == 0:
            raise Raised("ZeroDivisionError")
        a, b = _coerce(a, b)
        if isinstance(a, Decimal):
            return a / b
        return Fraction(a) / Fraction(b)
    if isinstance(op, ast.FloorDiv) and is_num(a) and is_num(b) and not isinstance(a, Decimal) and not isinstance(b, Decimal):
        if b == 0:
            raise Raised("ZeroDivisionError")
        return a // b
    if isinstance(op, ast.Mod) and is_num(a) and is_num(b) and not isinstance(a, Decimal) and not isinstance(b, Decimal):
        if b == 0:
            raise Raised("ZeroDivisionError")
        return a % b
    if isinstance(op, ast.Pow) and is_num(a) and isinstance(b, int):
        if b >= 0:
            return a ** b
        return Fraction(1) / (Fraction(a) ** (-b)) if not isinstance(a, Decimal) else Decimal(1) / a ** (-b)
    raise Refuse(f"binop {type(op).__name__} on {type(a).__name__},{type(b).__name__}")


def fsqrt(v):
    if isinstance(v, Arr):
        return v.map(fsqrt)
    if not is_num(v):
        raise Refuse("sqrt of non-number")
    if v < 0:
        raise Refuse("sqrt of negative")
    if not isinstance(v, Decimal):
        fr = Fraction(v)
        import math

        n, d = fr.numerator, fr.denominator
        rn, rd = math.isqrt(n), math.isqrt(d)
        if rn * rn == n and rd * rd == d:
            return Fraction(rn, rd)
    return dec(v).sqrt()


_TYPE_NAMES = {"int", "str", "float", "list", "tuple", "dict", "bool", "type"}


def type_tag_of(v):
    if isinstance(v, Opaque):
        return v.tag
    if isinstance(v, bool):
        return "bool"
    if isinstance(v, int):
        return "int"
    if isinstance(v, (Fraction, Decimal)):
        return "float"
    if isinstance(v, str):
        return "str"
    if isinstance(v, list):
        return "list"
    if isinstance(v, tuple):
        return "tuple"
    if isinstance(v, dict):
        return "dict"
    if isinstance(v, Arr):
        return "np.ndarray"
    if v is None:
        return "NoneType"
    return "?"


_ALLOC = ("np.zeros", "np.ones", "np.empty", "np.zeros_like", "np.ones_like", "np.empty_like", "np.full", "np.full_like")


def _shallow_nested(d):
    """Copy of a nested list structure that keeps the (symbolic) leaves themselves."""
    return [_shallow_nested(x) for x in d] if isinstance(d, list) else d


def is_allocation(c):
    """A freshly allocated array (concrete Arr, or the term of an allocation call, possibly negated / scaled): stores into it are
    recorded events of the fold; its own term stays the allocation."""
    if isinstance(c, Arr):
        return True
    if isinstance(c, Sym):
        fn = c.fn
        if isinstance(c.recv, Opaque) and c.recv.tag == "callable" and c.attr:
            fn = f"{c.recv.label}.{c.attr}"
        if fn in _ALLOC:
            return True
        if fn == "neg" and len(c.args) == 1:
            return is_allocation(c.args[0])
        if fn == "*" and len(c.args) == 2:
            return any(is_allocation(a) for a in c.args) and any(not isinstance(a, (Sym, Opaque, Arr)) for a in c.args)
    return False


def escapes(trace, obj):
    """True when the tracked container `obj` was handed to a call that stayed symbolic (the callee may have modified it: the recorded
    stores are then not the whole story)."""
    def holds(v, depth=0):
        if v is obj:
            return True
        if depth < 3 and isinstance(v, (list, tuple)):
            return any(holds(x, depth + 1) for x in v)
        if depth < 3 and isinstance(v, dict):
            return any(holds(x, depth + 1) for x in v.values())
        return False
    for t in trace:
        if isinstance(t, Sym) and t.fn not in ("setitem", "augitem", "setattr"):
            if any(holds(a) for a in t.args) or any(holds(a) for a in t.kw.values()) or (t.recv is obj and t.attr not in ("[]",) and not str(t.attr).startswith(".")):
                return True
    return False


def canon_index(v):
    """Canonical text of a folded index value."""
    def one(x):
        if isinstance(x, slice):
            return f"{'' if x.start is None else x.start}:{'' if x.stop is None else x.stop}" + ("" if x.step is None else f":{x.step}")
        if x is Ellipsis:
            return "..."
        if x is None:
            return "None"
        if isinstance(x, bool) or not isinstance(x, (int, Sym, Opaque, tuple, list)):
            raise Refuse("index kind")
        if isinstance(x, (tuple, list)):
            return ("(" if isinstance(x, tuple) else "[") + ", ".join(one(y) for y in x) + (")" if isinstance(x, tuple) else "]")
        return repr(x)
    if not isinstance(v, tuple):
        return one(v)
    el = list(v)
    while el and (el[-1] is Ellipsis or (isinstance(el[-1], slice) and el[-1] == slice(None) and not any(e is Ellipsis for e in el))):
        el.pop()
    if not el:
        return "..."
    return ", ".join(one(x) for x in el)


def _is_generator(fnode):
    """Does the function itself (not a nested one) contain a yield?"""
    todo = list(fnode.body)
    while todo:
        x = todo.pop()
        if isinstance(x, (ast.Yield, ast.YieldFrom)):
            return True
        if isinstance(x, (ast.FunctionDef, ast.AsyncFunctionDef, ast.Lambda, ast.ClassDef)):
            continue
        todo.extend(ast.iter_child_nodes(x))
    return False


class _Return(Exception):
    def __init__(self, value):
        self.value = value


class _Break(Exception):
    pass


class _Closure:
    """A nested function definition met while folding: its body is folded at the call, with the enclosing environment as it is then."""

    def __init__(self, fnode, env):
        self.fnode, self.env = fnode, env


class _FuncVal:
    """A repository function used as a value (table of functions, functools.partial): folded when it is called."""

    def __init__(self, fnode, args=(), kw=None):
        self.fnode, self.args, self.kw = fnode, tuple(args), dict(kw or {})


_OPERATOR_FUNCS = {"add": ast.Add, "sub": ast.Sub, "mul": ast.Mult, "truediv": ast.Div, "floordiv": ast.FloorDiv, "mod": ast.Mod, "pow": ast.Pow, "matmul": ast.MatMult,
                   "lt": ast.Lt, "le": ast.LtE, "gt": ast.Gt, "ge": ast.GtE, "eq": ast.Eq, "ne": ast.NotEq}


class _Continue(Exception):
    pass


class NeedDecision(Exception):
    """fold_paths: the scripted decisions are used up at a condition that stays symbolic."""


def raised_by_code(e):
    """A `Raised` that stands for what the analysed code does -- a `raise` / `assert` statement reached, or Python's own error on values the fold
    holds concretely -- as opposed to one of the fold's own making: an attribute a stand-in object was not given."""
    node = getattr(e, "node", None)
    return isinstance(node, (ast.Raise, ast.Assert)) or getattr(e, "name", "") != "AttributeError"


def fold_stmts(fo, stmts, env):
    """Fold statements one by one.  A statement outside the folding language is skipped -- and everything it may bind or modify (names,
    attributes and items of stand-in objects, receivers of method calls) is replaced by an `unknown` stand-in, so that nothing derived
    from a skipped statement can pass for a folded value (`mentions_unknown`).  Returns (value of a `return` reached or None, [(stmt, why)])."""
    skipped, ret = [], None
    for st in stmts:
        try:
            fo.stmt(st, env)
        except _Return as r:
            ret = r.value
            break
        except (Refuse, Raised) as e:
            if isinstance(st, ast.Assert) or (isinstance(st, ast.Expr) and isinstance(st.value, ast.Call) and isinstance(st.value.func, (ast.Name, ast.Attribute))
                                              and (getattr(st.value.func, "id", None) == "print" or (isinstance(st.value.func, ast.Attribute) and isinstance(st.value.func.value, ast.Name)
                                                                                                      and st.value.func.value.id in ("logger", "logging", "warnings")))):
                continue   # binds nothing: an assertion / a message about values the fold keeps symbolic
            skipped.append((st, e))
            for x in ast.walk(st):
                tgt = None
                if isinstance(x, (ast.Name, ast.Attribute, ast.Subscript)) and isinstance(getattr(x, "ctx", None), (ast.Store, ast.Del)):
                    tgt = x
                elif isinstance(x, ast.Call) and isinstance(x.func, ast.Attribute):
                    tgt = x.func.value   # receiver of a method call: may have been modified in place
                elif isinstance(x, ast.AugAssign):
                    tgt = x.target
                if tgt is None:
                    continue
                chain = []
                while isinstance(tgt, (ast.Attribute, ast.Subscript)):
                    chain.append(tgt)
                    tgt = tgt.value
                if not isinstance(tgt, ast.Name) or tgt.id in ("np", "numpy", "darsia", "math", "cv2", "warnings", "logger", "logging"):
                    continue
                if not chain:
                    if isinstance(x, ast.Name) or tgt.id in env:
                        env[tgt.id] = Opaque("unknown", tgt.id)
                    continue
                base = env.get(tgt.id)
                first = chain[-1]   # the link next to the name
                if isinstance(base, Obj) and isinstance(first, ast.Attribute):
                    base.fields[first.attr] = Opaque("unknown", f"{tgt.id}.{first.attr}")
                elif tgt.id in env:
                    env[tgt.id] = Opaque("unknown", tgt.id)
    return ret, skipped


def mentions_unknown(*values):
    """True if a folded value / term derives from something a skipped statement may have bound."""
    from .terms import nf

    for v in values:
        try:
            t = nf(v)
        except Exception:
            t = repr(v)
        if "<opaque unknown" in t or "<opaque unknown" in repr(v):
            return True
    return False


def fold_paths(run, max_paths=24):
    """Path-wise symbolic folding: `run(decider)` builds its inputs afresh, creates a Folder whose `decider` is the one given, folds and
    returns a result.  Every condition that stays symbolic is a case split; all decision sequences are enumerated depth first (no
    feasibility reasoning: every syntactic path counts).  Returns [(decisions, result, error)] with decisions = [(condition, bool)],
    error = the Refuse / Raised that ended the path (result None) or None.  Raises Refuse beyond max_paths."""
    out, stack = [], [[]]
    while stack:
        script = stack.pop()
        log = []
        it = iter(script)

        def decide(v, it=it, log=log):
            try:
                b = next(it)
            except StopIteration:
                raise NeedDecision()
            log.append((v, b))
            return b
        try:
            r = run(decide)
            out.append((log, r, None))
        except NeedDecision:
            stack.append(script + [False])
            stack.append(script + [True])
        except (Refuse, Raised) as e:
            out.append((log, None, e))
        if len(out) + len(stack) > max_paths:
            raise Refuse("more than %d paths" % max_paths)
    return out


class Folder:
    """Evaluate expressions / function bodies of the folding language.

    `resolver(call_node) -> ast.FunctionDef | None` lets a rule allow calls to other
    repository functions that are themselves inside the folding language.
    """

    def __init__(self, resolver=None, max_steps=200000, symbolic=False):
        self.resolver = resolver
        self.symbolic = symbolic
        self.trace = []  # symbolic applications in evaluation order
        self.steps = 0
        self.max_steps = max_steps
        self.yield_stack = []
        self.fold_all_methods = False   # symbolic mode: also fold methods that write object state (set by rules that observe that state)
        self.func_stack = []   # repository functions being folded (innermost last): context for resolving helpers / module constants
        self._modconst = {}
        self.decider = None    # callable(symbolic condition) -> bool: case split on conditions that stay symbolic (see fold_paths)

    def _ctx_func(self):
        from . import flow

        if flow.MODEL is None:
            return None
        for fn in reversed(self.func_stack):
            f = getattr(flow.MODEL, "_func_of_node", {}).get(id(fn))
            if f is not None:
                return f
        return None

    # -- expressions -------------------------------------------------------------
    def ev(self, n, env):
        self.steps += 1
        if self.steps > self.max_steps:
            raise Refuse("step bound exceeded")
        m = getattr(self, "e_" + type(n).__name__, None)
        if m is None:
            raise Refuse(f"expression kind {type(n).__name__}")
        return m(n, env)

    def e_Constant(self, n, env):
        v = n.value
        if isinstance(v, float):
            return Fraction(repr(v))
        if isinstance(v, (int, str, bool)) or v is None:
            return v
        if v is Ellipsis:
            return Ellipsis
        raise Refuse(f"constant {v!r}")

    def e_Name(self, n, env):
        if n.id in env:
            return env[n.id]
        if n.id in _TYPE_NAMES:
            return TypeTag(n.id)
        if n.id == "Ellipsis":
            return Ellipsis
        if n.id in ("True", "False", "None"):
            return {"True": True, "False": False, "None": None}[n.id]
        f = self._ctx_func()
        if f is not None and self.symbolic and (n.id in f.module.classes or n.id in f.module.funcs or n.id in f.module.imports):
            return Opaque("callable", n.id)
        if f is not None and not self.symbolic and n.id in f.module.funcs:
            return _FuncVal(f.module.funcs[n.id].node)
        if f is not None and n.id in f.module.assigns and (not self.symbolic or n.id not in f.module.classes and n.id not in f.module.funcs and n.id not in f.module.imports):
            # a module-level constant (lookup table, literal): folded once, on its own
            key = (f.module.name, n.id)
            if key not in self._modconst:
                self._modconst[key] = self.ev(f.module.assigns[n.id], {})
            return self._modconst[key]
        raise Refuse(f"unbound name {n.id}")

    def e_Lambda(self, n, env):
        """A lambda is a nested function whose body is one return: folded at the call, in the environment it was written in."""
        fn = ast.FunctionDef(name="<lambda>", args=n.args, body=[ast.Return(value=n.body)], decorator_list=[], returns=None, type_comment=None)
        ast.copy_location(fn, n)
        ast.fix_missing_locations(fn)
        return _Closure(fn, env)

    def e_Tuple(self, n, env):
        return tuple(self._elts(n.elts, env))

    def _elts(self, elts, env):
        out = []
        for e in elts:
            if isinstance(e, ast.Starred):
                v = self.ev(e.value, env)
                if isinstance(v, Arr):
                    v = v.data
                if not isinstance(v, (list, tuple)):
                    raise Refuse("starred element of a non-sequence")
                out.extend(v)
            else:
                out.append(self.ev(e, env))
        return out

    def e_List(self, n, env):
        return self._elts(n.elts, env)

    def e_Set(self, n, env):
        return frozenset(self.ev(e, env) for e in n.elts)

    def e_Dict(self, n, env):
        if any(k is None for k in n.keys):
            # {**a, **b, key: v}: later entries override earlier ones; symbolic mappings make the whole display a term that keeps the order
            parts = []
            for k, v in zip(n.keys, n.values):
                parts.append(self.ev(v, env) if k is None else {self.ev(k, env): self.ev(v, env)})
            if all(isinstance(p, dict) for p in parts):
                out = {}
                for p in parts:
                    out.update(p)
                return out
            if self.symbolic:
                return Sym("dictmerge", parts)
            raise Refuse("dict display with ** of a non-dict")
        return {self.ev(k, env): self.ev(v, env) for k, v in zip(n.keys, n.values)}

    def _comp(self, n, env, emit):
        def rec(i, env2):
            if i == len(n.generators):
                emit(env2)
                return
            g = n.generators[i]
            it = self.ev(g.iter, env2)
            if isinstance(it, Arr):
                it = it.data
            if not isinstance(it, (list, tuple, str, frozenset, dict)):
                raise Refuse("comprehension over non-literal")
            for x in it:
                e3 = dict(env2)
                self.assign(g.target, x, e3)
                if all(self.truth(self.ev(c, e3)) for c in g.ifs):
                    rec(i + 1, e3)
        rec(0, dict(env))

    def e_ListComp(self, n, env):
        out = []
        self._comp(n, env, lambda e: out.append(self.ev(n.elt, e)))
        return out

    def e_GeneratorExp(self, n, env):
        return self.e_ListComp(n, env)

    def e_SetComp(self, n, env):
        return frozenset(self.e_ListComp(n, env))

    def e_DictComp(self, n, env):
        out = {}

        def emit(e):
            out[self.ev(n.key, e)] = self.ev(n.value, e)
        self._comp(n, env, emit)
        return out

    def e_JoinedStr(self, n, env):
        return "<fstring>"

    _OPSYM = {ast.Add: "+", ast.Sub: "-", ast.Mult: "*", ast.Div: "/", ast.MatMult: "@", ast.Mod: "%", ast.Pow: "**", ast.FloorDiv: "//"}

    def e_BinOp(self, n, env):
        a, b = self.ev(n.left, env), self.ev(n.right, env)
        if self.symbolic and type(n.op) in self._OPSYM and not isinstance(n.op, ast.MatMult):
            # a scalar symbol combined with a literal array: elementwise (numpy broadcasting of a 0-d operand)
            for x, y, flip in ((a, b, False), (b, a, True)):
                if isinstance(x, Opaque) and x.tag in ("float", "int") and isinstance(y, Arr) and all(is_num(v) for v in y.flat()):
                    op = self._OPSYM[type(n.op)]

                    def comb(v, x=x, op=op, flip=flip):
                        if op == "*" and v == 1:
                            return x
                        return Sym(op, [v, x] if flip else [x, v])
                    return y.map(comb)
        if self.symbolic and isinstance(n.op, ast.Mult):
            for x, y in ((a, b), (b, a)):
                if isinstance(x, (Sym, Opaque)) and isinstance(y, list) and not (isinstance(x, Opaque) and x.tag not in ("int", "meta")):
                    return Sym("repeat", [y, x])   # n * [v]: a list of symbolic length
        if self.symbolic and (isinstance(a, (Sym, Opaque)) or isinstance(b, (Sym, Opaque))) and type(n.op) in self._OPSYM \
                and not (isinstance(a, (list, tuple)) or isinstance(b, (list, tuple))):
            return Sym(self._OPSYM[type(n.op)], [a, b])
        if self.symbolic and isinstance(a, (list, tuple)) and isinstance(b, (list, tuple)) and len(a) == len(b) and isinstance(n.op, (ast.Div, ast.Sub, ast.Mult)) \
                and any(isinstance(x, (Sym, Opaque)) for x in list(a) + list(b)):
            # Python has no list / list: such an expression is the canonical form of np.divide / np.subtract / np.multiply applied to
            # two sequences, i.e. elementwise
            out = []
            for x, y in zip(a, b):
                out.append(Sym(self._OPSYM[type(n.op)], [x, y]) if isinstance(x, (Sym, Opaque)) or isinstance(y, (Sym, Opaque)) else _binop(n.op, x, y))
            return out
        return _binop(n.op, a, b)

    def e_UnaryOp(self, n, env):
        v = self.ev(n.operand, env)
        if isinstance(n.op, ast.USub):
            if isinstance(v, Arr):
                return v.map(lambda x: -x)
            if is_num(v):
                return -v
            if self.symbolic and isinstance(v, (Sym, Opaque)):
                return Sym("neg", [v])
        if isinstance(n.op, ast.UAdd) and is_num(v):
            return v
        if isinstance(n.op, ast.Not):
            return not self.truth(v)
        raise Refuse("unary op")

    def truth(self, v):
        if isinstance(v, (Opaque, Arr, Sym)):
            if self.decider is not None and isinstance(v, (Opaque, Sym)):
                return bool(self.decider(v))
            raise Refuse("truth value of opaque")
        return bool(v)

    def e_BoolOp(self, n, env):
        if isinstance(n.op, ast.And):
            v = True
            for e in n.values:
                v = self.ev(e, env)
                if not self.truth(v):
                    return v
            return v
        v = False
        for e in n.values:
            v = self.ev(e, env)
            if self.truth(v):
                return v
        return v

    def e_IfExp(self, n, env):
        return self.ev(n.body if self.truth(self.ev(n.test, env)) else n.orelse, env)

    def _cmp(self, op, a, b):
        if isinstance(a, (Opaque, Sym, Obj)) or isinstance(b, (Opaque, Sym, Obj)):
            if isinstance(op, (ast.Is, ast.IsNot)) and (a is None or b is None):
                return isinstance(op, ast.IsNot)
            if isinstance(a, Opaque) and isinstance(b, Opaque) and a.tag == "callable" and b.tag == "callable" and isinstance(op, (ast.Eq, ast.NotEq, ast.Is, ast.IsNot)):
                # classes / module members named by their dotted path
                return (a == b) == isinstance(op, (ast.Eq, ast.Is))
            if isinstance(op, (ast.In, ast.NotIn)) and isinstance(a, Opaque) and a.tag == "callable" and isinstance(b, (dict, list, tuple, frozenset)) \
                    and all(isinstance(x, Opaque) and x.tag == "callable" for x in b):
                return (a in b) == isinstance(op, ast.In)
            raise Refuse("comparison with opaque value")
        if isinstance(op, ast.Eq):
            if isinstance(a, Arr) or isinstance(b, Arr):
                raise Refuse("array comparison")
            if is_num(a) and is_num(b):
                a, b = _coerce(a, b)
            return a == b
        if isinstance(op, ast.NotEq):
            return not self._cmp(ast.Eq(), a, b)
        if isinstance(op, ast.Is):
            return a is b or (a is None and b is None)
        if isinstance(op, ast.IsNot):
            return not self._cmp(ast.Is(), a, b)
        if isinstance(op, ast.In):
            if isinstance(b, str):
                if not isinstance(a, str):
                    raise Raised("TypeError")
                return a in b
            if b is None:
                raise Raised("TypeError")
            if isinstance(b, (list, tuple, frozenset, dict)):
                return a in b
            raise Refuse("in on unknown container")
        if isinstance(op, ast.NotIn):
            return not self._cmp(ast.In(), a, b)
        if is_num(a) and is_num(b):
            a, b = _coerce(a, b)
            return {ast.Lt: a < b, ast.LtE: a <= b, ast.Gt: a > b, ast.GtE: a >= b}[type(op)]
        raise Refuse("ordering comparison on non-numbers")

    _CMPSYM = {ast.Lt: "<", ast.LtE: "<=", ast.Gt: ">", ast.GtE: ">=", ast.Eq: "==", ast.NotEq: "!=", ast.In: "in", ast.NotIn: "not in"}

    def e_Compare(self, n, env):
        left = self.ev(n.left, env)
        if len(n.ops) == 1 and type(n.ops[0]) in self._CMPSYM:
            right0 = self.ev(n.comparators[0], env)
            # a literal array compared with a number (or an array of the same shape): elementwise, like numpy
            if isinstance(left, Arr) != isinstance(right0, Arr) or (isinstance(left, Arr) and isinstance(right0, Arr) and left.shape == right0.shape):
                other = right0 if isinstance(left, Arr) else left
                if isinstance(other, Arr) or is_num(other) or (self.symbolic and isinstance(other, (Sym, Opaque)) and not (isinstance(other, Opaque) and other.tag == "callable")):
                    op = n.ops[0]

                    def one(x, y):
                        if is_num(x) and is_num(y):
                            return self._cmp(op, x, y)
                        if self.symbolic and all(is_num(v) or isinstance(v, (Sym, Opaque)) for v in (x, y)):
                            return Sym(self._CMPSYM[type(op)], [x, y])
                        raise Refuse("array comparison")
                    if isinstance(left, Arr) and isinstance(right0, Arr):
                        return left.zip(right0, one)
                    if isinstance(left, Arr):
                        return left.map(lambda x: one(x, right0))
                    return right0.map(lambda y: one(left, y))
        if self.symbolic and len(n.ops) == 1 and type(n.ops[0]) in self._CMPSYM:
            right = self.ev(n.comparators[0], env)
            if (isinstance(left, (Sym, Opaque)) or isinstance(right, (Sym, Opaque))) and left is not None and right is not None \
                    and not (isinstance(left, Opaque) and left.tag == "callable") and not (isinstance(right, Opaque) and right.tag == "callable"):
                return Sym(self._CMPSYM[type(n.ops[0])], [left, right])
            if isinstance(n.ops[0], (ast.Eq, ast.NotEq)) and isinstance(left, (list, tuple)) and isinstance(right, (list, tuple)) and len(left) == len(right) \
                    and any(isinstance(x, (Sym, Opaque)) and not (isinstance(x, Opaque) and x.tag == "callable") for x in list(left) + list(right)) \
                    and not all(x is y or (is_num(x) and is_num(y) and x == y) for x, y in zip(left, right)) \
                    and not any(is_num(x) and is_num(y) and x != y for x, y in zip(left, right)):
                # two sequences of symbolic entries: equal or not is not known (identity of the symbols decides nothing)
                return Sym(self._CMPSYM[type(n.ops[0])], [list(left), list(right)])
        for op, c in zip(n.ops, n.comparators):
            right = self.ev(c, env)
            if not self._cmp(op, left, right):
                return False
            left = right
        return True

    def _class_attr(self, obj, attr):
        """Class-level attribute (a table assigned in the class body) of a stand-in whose class is named: (value,) or None."""
        cname = obj.fields.get("__class__")
        cf = self._ctx_func()
        if not isinstance(cname, str) or cf is None:
            return None
        k = cf.module.classes.get(cname)
        seen = set()
        while k is not None and id(k) not in seen:
            seen.add(id(k))
            for st in k.node.body:
                tgt = st.targets[0] if isinstance(st, ast.Assign) and len(st.targets) == 1 else (st.target if isinstance(st, ast.AnnAssign) and st.value is not None else None)
                if isinstance(tgt, ast.Name) and tgt.id == attr:
                    return (self.ev(st.value, {}),)
            k = next((b for b in k.bases if hasattr(b, "node")), None)
        return None

    def _property(self, obj, attr):
        """A @property of the stand-in's (named) class, resolved through the model's class hierarchy: its FunctionDef, or None."""
        from . import flow

        cname = obj.fields.get("__class__")
        if not isinstance(cname, str) or flow.MODEL is None:
            return None
        cf = self._ctx_func()
        k = cf.module.classes.get(cname) if cf is not None else None
        if k is None:
            for mod in flow.MODEL.modules.values():
                if cname in mod.classes:
                    k = mod.classes[cname]
                    break
        if k is None:
            return None
        for kk in flow.MODEL.mro(k):
            f = kk.methods.get(attr)
            if f is not None:
                decos = [getattr(d, "id", None) for d in f.node.decorator_list]
                return f.node if "property" in decos else None
        return None

    def _rebind(self, where, value, env):
        """Functional update of a symbolic array that is not a fresh allocation: the variable / object attribute holding it gets the
        updated term (other names bound to the old term keep the old value: refused when that could be observed is beyond this fold,
        so only plain names and attributes of stand-in objects are accepted)."""
        if isinstance(where, ast.Name) and where.id in env:
            env[where.id] = value
            return
        if isinstance(where, ast.Attribute):
            o = self.ev(where.value, env)
            if isinstance(o, Obj) and where.attr in o.fields:
                o.fields[where.attr] = value
                return
        raise Refuse("in-place update of a symbolic array reached through an expression")

    def _index_value(self, sl, env):
        try:
            return ("value", self.ev(sl, env))
        except (Refuse, Raised):
            return None

    def _sym_index(self, sl, env):
        """Text of an index expression with its foldable parts folded (symbolic mode).  An index that folds completely is written
        in one canonical way (`:-1, ..., 0`; a trailing ellipsis / trailing full slices are dropped), however it was spelled."""
        try:
            return canon_index(self.ev(sl, env))
        except (Refuse, Raised):
            pass
        if isinstance(sl, ast.Tuple):
            return ", ".join(self._sym_index(e, env) for e in sl.elts)
        if isinstance(sl, ast.Slice):
            parts = [self._sym_index(x, env) if x is not None else "" for x in (sl.lower, sl.upper)]
            return ":".join(parts) + (":" + self._sym_index(sl.step, env) if sl.step is not None else "")
        try:
            return repr(self.ev(sl, env))
        except Refuse:
            return " ".join(ast.unparse(sl).split())

    def e_Slice(self, n, env):
        parts = [self.ev(x, env) if x is not None else None for x in (n.lower, n.upper, n.step)]
        if not all(p is None or (isinstance(p, int) and not isinstance(p, bool)) or (self.symbolic and isinstance(p, (Sym, Opaque))) for p in parts):
            raise Refuse("slice with non-integer bounds")
        return slice(*parts)

    def c_slice(self, a, kw):
        if kw or not 1 <= len(a) <= 3 or not all(p is None or (isinstance(p, int) and not isinstance(p, bool)) or (self.symbolic and isinstance(p, (Sym, Opaque))) for p in a):
            raise Refuse("slice()")
        return slice(*a)

    def e_Subscript(self, n, env):
        v = self.ev(n.value, env)
        if self.symbolic and isinstance(v, (Opaque, Sym)):
            label = v.label if isinstance(v, Opaque) else repr(v)
            return Sym(f"{label}[{self._sym_index(n.slice, env)}]", recv=v, attr="[]", index=self._index_value(n.slice, env))
        if isinstance(n.slice, ast.Slice):
            lo = self.ev(n.slice.lower, env) if n.slice.lower else None
            hi = self.ev(n.slice.upper, env) if n.slice.upper else None
            st = self.ev(n.slice.step, env) if n.slice.step else None
            if not all(x is None or (isinstance(x, int) and not isinstance(x, bool)) for x in (lo, hi, st)):
                raise Refuse("slice with non-integer bounds")
            if isinstance(v, (str, list, tuple)):
                return v[slice(lo, hi, st)]
            if isinstance(v, Arr):
                return Arr(v.data[slice(lo, hi, st)])
            raise Refuse("slice of unknown")
        i = self.ev(n.slice, env)
        if isinstance(v, Arr):
            if isinstance(i, int):
                r = v.data[i]
                return Arr(r) if isinstance(r, list) else r
            if isinstance(i, tuple) and i and all(isinstance(x, int) and not isinstance(x, bool) for x in i):
                r = v.data
                try:
                    for x in i:
                        r = r[x]
                except (IndexError, TypeError):
                    raise Raised("IndexError")
                return Arr(r) if isinstance(r, list) else r
            if isinstance(i, tuple) and i and all(isinstance(x, (int, slice)) and not isinstance(x, bool) for x in i) \
                    and all(x.start is None or isinstance(x.start, int) for x in i if isinstance(x, slice)) and all(x.stop is None or isinstance(x.stop, int) for x in i if isinstance(x, slice)):
                return v.index(i)
            if isinstance(i, Arr) and len(i.shape) == 1 and len(v.shape) >= 1 and i.data and all(isinstance(x, bool) for x in i.data) and len(i.data) == len(v.data):
                return Arr([x for x, keep in zip(v.data, i.data) if keep])
            if isinstance(i, Arr) and len(i.shape) == 1 and len(v.shape) >= 1 and all(isinstance(x, int) and not isinstance(x, bool) for x in i.data):
                # gather along the first axis with a literal index vector
                try:
                    return Arr([v.data[x] for x in i.data])
                except IndexError:
                    raise Raised("IndexError")
            raise Refuse("array index")
        if isinstance(v, (str, list, tuple)):
            if not isinstance(i, int) or isinstance(i, bool):
                raise Raised("TypeError")
            try:
                return v[i]
            except IndexError:
                raise Raised("IndexError")
        if isinstance(v, dict):
            try:
                return v[i]
            except KeyError:
                raise Raised("KeyError")
        if isinstance(v, Obj) and callable(v.fields.get("__getitem__")) and not isinstance(v.fields.get("__getitem__"), (Opaque, Sym)):
            return v.fields["__getitem__"]([i], {})
        if self.symbolic and isinstance(v, Obj):
            return Sym(f"{v.label}[{self._sym_index(n.slice, env)}]", recv=v, attr="[]", index=self._index_value(n.slice, env))
        raise Refuse("subscript of unknown")

    def e_Attribute(self, n, env):
        if self.symbolic and isinstance(n.value, ast.Name) and n.value.id in ("np", "numpy", "math", "operator") and n.value.id not in env:
            return Opaque("callable", f"{n.value.id}.{n.attr}")
        v = self.ev(n.value, env) if not (isinstance(n.value, ast.Name) and n.value.id in ("np", "numpy", "math")) else None
        if isinstance(v, Arr) and n.attr == "shape":
            return v.shape
        if isinstance(v, Arr) and n.attr == "ndim":
            return len(v.shape)
        if isinstance(v, Arr) and n.attr == "size":
            return len(v.flat())
        if isinstance(v, Obj):
            if n.attr in v.fields:
                return v.fields[n.attr]
            cv = self._class_attr(v, n.attr)
            if cv is not None:
                return cv[0]
            if self.symbolic and len(self.func_stack) < 8:
                pn = self._property(v, n.attr)
                if pn is not None:
                    return self.call(pn, [v])
                if n.attr == "ndim":
                    # the canonical form writes len(x.shape) as x.ndim (normalize.py): read it back for objects that only have a shape
                    sh = v.fields.get("shape")
                    if sh is None:
                        pn = self._property(v, "shape")
                        sh = self.call(pn, [v]) if pn is not None else None
                    if isinstance(sh, (tuple, list)):
                        return len(sh)
            raise Raised("AttributeError", n)
        if isinstance(v, slice) and n.attr in ("start", "stop", "step"):
            return getattr(v, n.attr)
        if isinstance(v, Opaque) and n.attr in v.fields:
            return v.fields[n.attr]
        if self.symbolic and isinstance(v, Opaque) and v.tag != "callable":
            return Sym(f"{v.label}.{n.attr}", recv=v, attr="." + n.attr)
        if self.symbolic and isinstance(v, Sym):
            if v.fn.startswith("namedtuple(") and n.attr in v.kw:
                return v.kw[n.attr]  # field of a record built in this very fold
            return Sym(f"{v!r}.{n.attr}", recv=v, attr="." + n.attr)
        if self.symbolic and isinstance(v, Opaque) and v.tag == "callable":
            # member of an imported module / class of the repository: an opaque constant named by its dotted path
            return Opaque("callable", f"{v.label}.{n.attr}")
        raise Refuse(f"attribute {n.attr}")

    _STR_METHODS = ("find", "index", "upper", "lower", "replace", "startswith", "endswith", "strip")

    def method_call(self, n, env):
        f = n.func
        if isinstance(f.value, ast.Call) and isinstance(f.value.func, ast.Name) and f.value.func.id == "super" and not f.value.args and self.symbolic:
            # super().m(...): the next definition of m in the method resolution order of the class the current function belongs to
            from . import flow

            cf = self._ctx_func()
            if cf is not None and cf.cls is not None and cf.params and cf.params[0] in env and flow.MODEL is not None and len(self.func_stack) < 8:
                for kk in flow.MODEL.mro(cf.cls)[1:]:
                    t = kk.methods.get(f.attr)
                    if t is not None:
                        args = self._call_args(n, env)
                        return self.call(t.node, [env[cf.params[0]]] + args, self._kwargs(n, env))
            raise Refuse("super()")
        recv = self.ev(f.value, env)
        args = self._call_args(n, env)
        if isinstance(recv, str) and f.attr in self._STR_METHODS and all(isinstance(a, (str, int)) for a in args):
            try:
                return getattr(recv, f.attr)(*args)
            except ValueError:
                raise Raised("ValueError", n)
        if isinstance(recv, (list, tuple)) and f.attr == "index":
            try:
                return list(recv).index(*args)
            except ValueError:
                raise Raised("ValueError", n)
        if isinstance(recv, Arr) and f.attr == "copy" and not args and self.symbolic:
            import copy as _copy

            out = Arr(_copy.deepcopy(recv.data) if all(not isinstance(v, (Sym, Opaque)) for v in recv.flat()) else _shallow_nested(recv.data))
            out.copied_from = recv
            return out
        if isinstance(recv, Arr) and f.attr == "copy" and not args:
            return Arr(copy_nested(recv.data))
        if isinstance(recv, Arr) and not self.symbolic and f.attr in ("ravel", "flatten") and not args:
            return Arr(list(recv.flat()))
        if isinstance(recv, Arr) and not self.symbolic and f.attr == "reshape" and args:
            shp = list(args[0]) if len(args) == 1 and isinstance(args[0], (list, tuple)) else list(args)
            flat = list(recv.flat())
            if all(isinstance(x, int) and not isinstance(x, bool) for x in shp) and shp.count(-1) <= 1:
                known = 1
                for x in shp:
                    if x != -1:
                        known *= x
                if -1 in shp:
                    if known == 0 or len(flat) % known:
                        raise Raised("ValueError")
                    shp[shp.index(-1)] = len(flat) // known
                    known = len(flat)
                if known != len(flat):
                    raise Raised("ValueError")

                def build(vals, dims):
                    if len(dims) == 1:
                        return list(vals)
                    step = len(vals) // dims[0] if dims[0] else 0
                    return [build(vals[i * step:(i + 1) * step], dims[1:]) for i in range(dims[0])]
                return Arr(build(flat, shp))
        if isinstance(recv, Arr) and f.attr == "tolist" and not args:
            return copy_nested(recv.data)
        if isinstance(recv, list) and f.attr == "copy":
            return list(recv)
        if isinstance(recv, list) and f.attr == "append":
            recv.append(args[0])
            return None
        if isinstance(recv, list) and f.attr == "pop" and len(args) <= 1 and all(isinstance(a, int) and not isinstance(a, bool) for a in args):
            try:
                return recv.pop(*args)
            except IndexError:
                raise Raised("IndexError", n)
        if isinstance(recv, list) and f.attr == "insert" and len(args) == 2 and isinstance(args[0], int) and not isinstance(args[0], bool):
            recv.insert(args[0], args[1])
            return None
        if isinstance(recv, list) and f.attr == "extend" and len(args) == 1 and isinstance(args[0], (list, tuple)):
            recv.extend(args[0])
            return None
        if isinstance(recv, list) and f.attr == "reverse" and not args:
            recv.reverse()
            return None
        if isinstance(recv, list) and f.attr == "clear" and not args:
            recv.clear()
            return None
        if isinstance(recv, (list, dict)) and f.attr in ("pop", "insert", "extend", "remove", "reverse", "sort", "clear", "popitem", "setdefault", "update") and self.symbolic:
            if not (isinstance(recv, dict) and f.attr in ("update", "pop")):
                raise HardRefuse(f"in-place method {f.attr} on a concrete {type(recv).__name__} in a form the folder does not model")
        if isinstance(recv, slice) and f.attr == "indices" and len(args) == 1:
            n_ = args[0]
            if all(x is None or (isinstance(x, int) and not isinstance(x, bool)) for x in (recv.start, recv.stop, recv.step)) and isinstance(n_, int):
                return tuple(recv.indices(n_))
            if self.symbolic and recv.step in (None, 1):
                # bounds of the slice resolved against an axis of length n: a term per bound (None is the full extent)
                lo = 0 if recv.start is None else Sym("slice_start", [recv.start, n_])
                hi = n_ if recv.stop is None else Sym("slice_stop", [recv.stop, n_])
                return (lo, hi, 1)
            raise Refuse("slice.indices")
        if isinstance(recv, dict) and f.attr == "update" and len(args) <= 1 and (not args or isinstance(args[0], dict)):
            if args:
                recv.update(args[0])
            recv.update(self._kwargs(n, env))
            return None
        if isinstance(recv, dict) and f.attr == "copy" and not args:
            return dict(recv)
        if isinstance(recv, dict) and f.attr in ("items", "keys", "values") and not args:
            return [tuple(kv) for kv in recv.items()] if f.attr == "items" else list(getattr(recv, f.attr)())
        if isinstance(recv, dict) and f.attr == "get":
            return recv.get(args[0], args[1] if len(args) > 1 else None)
        if isinstance(recv, dict) and f.attr == "pop" and len(args) == 2:
            return recv.pop(args[0], args[1])
        if isinstance(recv, Obj) and callable(recv.fields.get(f.attr)) and not isinstance(recv.fields.get(f.attr), (Opaque, Sym)):
            # a method supplied by the rule that set up the fold (stand-in for a library object)
            return recv.fields[f.attr](args, self._kwargs(n, env))
        if isinstance(recv, Obj) and not self.symbolic:
            cf = self._ctx_func()
            if cf is not None:
                from . import flow

                try:
                    t = flow.MODEL.resolve_call(n, cf)
                except Exception:
                    t = None
                if t is not None and hasattr(t, "node") and isinstance(t.node, ast.FunctionDef) and t.params and t.params[0] in ("self", "cls") and len(self.func_stack) < 8:
                    kw = self._kwargs(n, env)
                    return self.call(t.node, [recv] + args, kw)
                if t is not None and hasattr(t, "node") and isinstance(t.node, ast.FunctionDef) and len(self.func_stack) < 8 \
                        and [getattr(d, "id", None) for d in t.node.decorator_list] == ["staticmethod"]:
                    return self.call(t.node, args, self._kwargs(n, env))
        raise Refuse(f"method {f.attr} on {type(recv).__name__}")

    def _kwargs(self, n, env):
        """Keyword arguments of a call; `**d` is spread when d folds to a dict with string keys (it is skipped otherwise, as before)."""
        kw = {}
        for k in n.keywords:
            if k.arg:
                kw[k.arg] = self.ev(k.value, env)
            else:
                try:
                    d = self.ev(k.value, env)
                except Refuse:
                    continue
                if isinstance(d, dict) and all(isinstance(x, str) for x in d):
                    kw.update(d)
                elif self.symbolic:
                    kw["**"] = d
        return kw

    def _call_args(self, n, env):
        """Positional arguments of a call; a starred argument is spread when it folded to a sequence -- never dropped."""
        args = []
        for a in n.args:
            if isinstance(a, ast.Starred):
                v = self.ev(a.value, env)
                if isinstance(v, Arr):
                    v = v.data
                if not isinstance(v, (list, tuple)):
                    raise HardRefuse("starred argument that did not fold to a sequence")
                args.extend(v)
            else:
                args.append(self.ev(a, env))
        return args

    def e_Call(self, n, env):
        f = n.func
        ov = getattr(self, "overrides", None)
        if ov:
            try:
                key = ast.unparse(f)
            except Exception:
                key = None
            if key in ov:
                args = self._call_args(n, env)
                kw = self._kwargs(n, env)
                return ov[key](args, kw)
        if not self.symbolic:
            if isinstance(f, ast.Attribute) and isinstance(f.value, ast.Name) and f.value.id not in env and (f.value.id, f.attr) in (("functools", "partial"), ("itertools", "product")):
                args = [self.ev(a, env) for a in n.args]
                kw = self._kwargs(n, env)
                if f.attr == "partial" and args and isinstance(args[0], _FuncVal):
                    return _FuncVal(args[0].fnode, args[0].args + tuple(args[1:]), {**args[0].kw, **kw})
                if f.attr == "product" and all(isinstance(a, (list, tuple, range)) for a in args) and isinstance(kw.get("repeat", 1), int):
                    import itertools as _it
                    return list(_it.product(*[list(a) for a in args], repeat=kw.get("repeat", 1)))
                raise Refuse(f"{f.value.id}.{f.attr} of unmodelled operands")
            if not isinstance(f, (ast.Name, ast.Attribute)) or (isinstance(f, ast.Name) and isinstance(env.get(f.id), _FuncVal)):
                fv = self.ev(f, env)
                if isinstance(fv, _FuncVal):
                    args = [self.ev(a, env) for a in n.args]
                    kw = self._kwargs(n, env)
                    return self.call(fv.fnode, list(fv.args) + args, {**fv.kw, **kw})
        if isinstance(f, ast.Attribute) and isinstance(f.value, ast.Name) and f.value.id == "operator" and "operator" not in env and len(n.args) == 2 and not n.keywords \
                and f.attr in _OPERATOR_FUNCS:
            # the stdlib spelling of an operator is the operator
            opn = _OPERATOR_FUNCS[f.attr]
            syn = ast.Compare(left=n.args[0], ops=[opn()], comparators=[n.args[1]]) if issubclass(opn, ast.cmpop) else ast.BinOp(left=n.args[0], op=opn(), right=n.args[1])
            return self.ev(ast.fix_missing_locations(ast.copy_location(syn, n)), env)
        if isinstance(f, ast.Name) and f.id == "next" and "next" not in env and n.args and isinstance(n.args[0], (ast.GeneratorExp, ast.ListComp)) and len(n.args) <= 2 and not n.keywords:
            seq_ = self.ev(n.args[0], env)
            if isinstance(seq_, (list, tuple)):
                if seq_:
                    return seq_[0]
                if len(n.args) == 2:
                    return self.ev(n.args[1], env)
                raise Raised("StopIteration", n)
        if not isinstance(f, (ast.Name, ast.Attribute)):
            try:
                fv_ = self.ev(f, env)
            except Refuse:
                fv_ = None
            if isinstance(fv_, _Closure):   # an entry of a table of lambdas / nested functions
                return self.call(fv_.fnode, self._call_args(n, env), self._kwargs(n, env), base_env=fv_.env)
        if isinstance(f, ast.Name) and isinstance(env.get(f.id), _Closure):
            cl = env[f.id]
            args = [self.ev(a, env) for a in n.args]
            kw = self._kwargs(n, env)
            return self.call(cl.fnode, args, kw, base_env=cl.env)
        if self.symbolic and isinstance(f, ast.Attribute) and isinstance(f.value, ast.Name) and f.value.id == "itertools" and f.attr == "accumulate" and "itertools" not in env \
                and 1 <= len(n.args) <= 2:
            # running reduction of a sequence that folded to a Python list: [initial?, f(., s0), f(., s1), ...]
            seq = self.ev(n.args[0], env)
            kw = self._kwargs(n, env)
            fn = self.ev(n.args[1], env) if len(n.args) > 1 else kw.get("func")
            if isinstance(seq, (list, tuple)) and (fn is None or (isinstance(fn, Opaque) and fn.tag == "callable")):
                out = []
                acc = kw.get("initial")
                if acc is not None:
                    out.append(acc)
                for x in seq:
                    if acc is None:
                        acc = x
                    else:
                        acc = Sym(fn.label, [acc, x]) if fn is not None else Sym("+", [acc, x])
                    out.append(acc)
                return out
        if isinstance(f, ast.Name) and f.id == "type" and "type" not in env and len(n.args) == 1 and not n.keywords:
            a0 = self.ev(n.args[0], env)
            if isinstance(a0, Obj) and "__type__" in a0.fields:
                return a0.fields["__type__"]
        name = None
        if isinstance(f, ast.Name):
            name = f.id
        elif isinstance(f, ast.Attribute) and isinstance(f.value, ast.Name) and f.value.id in ("np", "numpy", "math"):
            name = "np." + f.attr
        elif isinstance(f, ast.Attribute) and isinstance(f.value, ast.Name) and f.value.id == "copy" and "copy" not in env and f.attr == "copy":
            name = "copy.copy"
        if name is not None and hasattr(self, "c_" + name.replace(".", "_")):
            args = []
            for a in n.args:
                if isinstance(a, ast.Starred):
                    v = self.ev(a.value, env)
                    if not isinstance(v, (list, tuple)):
                        raise Refuse("starred call of a non-sequence")
                    args.extend(v)
                else:
                    args.append(self.ev(a, env))
            kw = self._kwargs(n, env)
            try:
                return getattr(self, "c_" + name.replace(".", "_"))(args, kw)
            except (Refuse, TypeError, AttributeError):
                if not (self.symbolic and (name.startswith("np.") or name in ("set", "list", "tuple", "sorted", "len", "abs", "min", "max", "frozenset", "int", "float")) and any(isinstance(x, (Sym, Opaque)) for a_ in list(args) + list(kw.values()) for x in (a_ if isinstance(a_, (list, tuple)) else [a_]))):
                    raise
                # a numpy routine applied to symbolic operands stays a term
                sy = Sym(name, args, kw)
                self.trace.append(sy)
                return sy
        if isinstance(f, ast.Attribute) and not (isinstance(f.value, ast.Name) and f.value.id in ("np", "numpy", "math", "darsia", "da")):
            try:
                return self.method_call(n, env)
            except HardRefuse:
                raise
            except Refuse:
                if self.resolver is None and not self.symbolic:
                    raise
        if self.resolver is not None:
            tgt = self.resolver(n)
            if tgt is not None:
                args = [self.ev(a, env) for a in n.args]
                kw = self._kwargs(n, env)
                return self.call(tgt, args, kw)
        cf = self._ctx_func()
        if cf is not None:
            from . import flow

            try:
                t = flow.MODEL.resolve_call(n, cf)
            except Exception:
                t = None
            if self.symbolic and t is not None and hasattr(t, "node") and isinstance(t.node, ast.FunctionDef) and len(self.func_stack) < 6 \
                    and [getattr(d, "id", None) for d in t.node.decorator_list] == ["staticmethod"] and isinstance(f, ast.Attribute):
                # a static helper of the class: folded on its arguments alone
                try:
                    args = [self.ev(a, env) for a in n.args]
                    kw = self._kwargs(n, env)
                    if self.fold_all_methods or all(not isinstance(x, Sym) for x in list(args) + list(kw.values())):
                        sub = Folder(symbolic=True, max_steps=20000)
                        sub.overrides = getattr(self, "overrides", None)
                        sub.fold_all_methods = self.fold_all_methods
                        sub.decider = self.decider
                        sub.func_stack = list(self.func_stack) + [t.node]
                        r = sub.call(t.node, args, kw)
                        self.trace.extend(sub.trace)
                        return r
                except Refuse:
                    pass
            if t is not None and hasattr(t, "node") and isinstance(t.node, ast.FunctionDef) and not t.node.decorator_list:
                if not self.symbolic:
                    args = [self.ev(a, env) for a in n.args]
                    kw = self._kwargs(n, env)
                    if isinstance(f, ast.Attribute) and getattr(t, "cls", None) is not None and t.params and t.params[0] in ("self", "cls"):
                        args = [self.ev(f.value, env)] + args
                    return self.call(t.node, args, kw)
                # symbolic mode: a repository function is folded when its arguments are concrete (table look-ups); otherwise it stays a symbol
                try:
                    args = [self.ev(a, env) for a in n.args]
                    kw = self._kwargs(n, env)
                    if all(not isinstance(x, (Sym, Opaque, Obj)) for x in list(args) + list(kw.values())) and getattr(t, "cls", None) is None:
                        sub = Folder()
                        return sub.call(t.node, args, kw)
                    if getattr(t, "cls", None) is None and isinstance(f, ast.Name) and t.module is cf.module and (t.name.startswith("_") or self.fold_all_methods) \
                            and len(self.func_stack) < 6 and t.node not in self.func_stack:
                        # a private helper of the same module (typically an extracted piece of the function being folded): folded on the
                        # symbolic arguments, its recorded stores and calls join this fold's
                        sub = Folder(symbolic=True, max_steps=20000)
                        sub.overrides = getattr(self, "overrides", None)
                        sub.fold_all_methods = self.fold_all_methods
                        sub.decider = self.decider
                        sub.func_stack = list(self.func_stack) + [t.node]
                        try:
                            r = sub.call(t.node, args, kw)
                        finally:
                            self.trace.extend(sub.trace)
                        return r
                    if getattr(t, "cls", None) is not None and isinstance(f, ast.Attribute) and t.params and t.params[0] in ("self", "cls") \
                            and (self.fold_all_methods or all(not isinstance(x, Sym) for x in list(args) + list(kw.values()))):
                        recv = self.ev(f.value, env)
                        def _stores_state(fn):
                            for x in ast.walk(fn):
                                if isinstance(x, (ast.Attribute, ast.Subscript)) and isinstance(getattr(x, "ctx", None), (ast.Store, ast.Del)):
                                    b = x
                                    while isinstance(b, (ast.Attribute, ast.Subscript)):
                                        b = b.value
                                    if isinstance(b, ast.Name) and b.id == t.params[0]:
                                        return True
                            return False
                        if isinstance(recv, Obj) and (self.fold_all_methods or not _stores_state(t.node)) and len(self.func_stack) < 6:
                            # a helper of the class that does not write object state (predicate, accessor, extracted piece of a computation)
                            sub = Folder(symbolic=True, max_steps=20000)
                            sub.overrides = getattr(self, "overrides", None)
                            sub.fold_all_methods = self.fold_all_methods
                            sub.decider = self.decider
                            sub.func_stack = list(self.func_stack)
                            r = sub.call(t.node, [recv] + args, kw)
                            self.trace.extend(sub.trace)
                            return r
                except Refuse:
                    pass
        if self.symbolic:
            args = self._call_args(n, env)
            kw = self._kwargs(n, env)
            if isinstance(f, ast.Attribute):
                try:
                    recv = self.ev(f.value, env)
                except Refuse:
                    recv = None
                if isinstance(recv, (Opaque, Obj, Sym)):
                    label = recv.label if not isinstance(recv, Sym) else repr(recv)
                    fld = recv.fields.get(f.attr) if isinstance(recv, Obj) else None
                    if isinstance(fld, Opaque) and fld.tag == "callable" and fld.label:
                        # an attribute holding a class / function: the call is a call of that value
                        sy = Sym(fld.label, args, kw)
                        self.trace.append(sy)
                        return sy
                    sy = Sym(f"{label}.{f.attr}", args, kw, recv=recv, attr=f.attr)
                    self.trace.append(sy)
                    return sy
            label = " ".join(ast.unparse(f).split())
            if not isinstance(f, (ast.Name, ast.Attribute)):
                try:
                    fv = self.ev(f, env)
                    if callable(fv) and not isinstance(fv, (Opaque, Sym, Obj, Arr)):
                        return fv(args, kw)   # a constructor / function supplied by the rule that set the fold up (type(x) of a stand-in)
                    if isinstance(fv, Opaque) and fv.tag == "callable":
                        label = fv.label
                except Refuse:
                    pass
            elif isinstance(f, ast.Name) and f.id in env and isinstance(env[f.id], Opaque) and env[f.id].tag == "callable":
                label = env[f.id].label
            elif isinstance(f, ast.Name) and f.id in env and isinstance(env[f.id], Sym):
                label = repr(env[f.id])
            if ov and label in ov:
                return ov[label](args, kw)
            sy = Sym(label, args, kw)
            self.trace.append(sy)
            return sy
        raise Refuse(f"call of {ast.unparse(f)}")

    # builtin models ---------------------------------------------------------------
    def c_isinstance(self, a, kw):
        v, t = a
        tags = t if isinstance(t, tuple) else (t,)
        if isinstance(v, Obj) and "__class__" in v.fields and all(isinstance(tg, Opaque) and tg.tag == "callable" for tg in tags):
            return any(tg.label.split(".")[-1] == v.fields["__class__"] for tg in tags)
        if isinstance(v, Opaque) and all(isinstance(tg, Opaque) and tg.tag == "callable" for tg in tags):
            return any(tg.label.split(".")[-1] == v.tag.split(".")[-1] for tg in tags)
        if self.symbolic and isinstance(v, (Obj, Opaque)) and all(isinstance(tg, (TypeTag, Opaque)) for tg in tags):
            # a typed stand-in against a mix of builtin types and repository classes: builtins never match it
            cls_tags = [tg for tg in tags if isinstance(tg, Opaque) and tg.tag == "callable"]
            name = v.fields.get("__class__") if isinstance(v, Obj) else v.tag.split(".")[-1]
            if isinstance(name, str):
                return any(tg.label.split(".")[-1] == name for tg in cls_tags)
        vt = type_tag_of(v)
        hit = False
        for tg in tags:
            if isinstance(tg, Opaque) and tg.tag == "callable" and self.symbolic and not isinstance(v, (Obj, Opaque, Sym)):
                continue  # a plain Python value is not an instance of a repository / numpy class
            if not isinstance(tg, TypeTag):
                raise Refuse("isinstance with non-builtin type")
            if tg.name == vt or (tg.name == "int" and vt == "bool"):
                hit = True
        return hit

    def c_hasattr(self, a, kw):
        o, nme = a
        if isinstance(o, Obj) and isinstance(nme, str):
            return nme in o.fields
        raise Refuse("hasattr on an unknown object")

    def c_getattr(self, a, kw):
        o, nme = a[0], a[1]
        if isinstance(o, Opaque) and o.tag == "callable" and o.label in ("darsia", "da", "np", "cv2", "skimage") and isinstance(nme, str):
            return Opaque("callable", f"{o.label}.{nme}")   # getattr(package, "Name") names the member Name of the package
        if isinstance(o, Obj) and isinstance(nme, str):
            if nme in o.fields:
                return o.fields[nme]
            if len(a) > 2:
                return a[2]
            raise Raised("AttributeError")
        raise Refuse("getattr on an unknown object")

    def c_len(self, a, kw):
        if isinstance(a[0], Arr):
            return a[0].shape[0]
        if isinstance(a[0], (str, list, tuple, dict, frozenset)):
            return len(a[0])
        raise Refuse("len")

    def c_range(self, a, kw):
        if all(isinstance(x, int) for x in a):
            return list(range(*a))
        raise Refuse("range")

    def c_enumerate(self, a, kw):
        it = a[0].data if isinstance(a[0], Arr) else a[0]
        if isinstance(it, (list, tuple, str)):
            start = a[1] if len(a) > 1 else kw.get("start", 0)
            return [(i + start, x) for i, x in enumerate(it)]
        raise Refuse("enumerate over non-literal")

    def c_zip(self, a, kw):
        its = [x.data if isinstance(x, Arr) else x for x in a]
        if all(isinstance(x, (list, tuple, str)) for x in its):
            return [tuple(t) for t in zip(*its)]
        raise Refuse("zip over non-literal")

    def c_next(self, a, kw):
        # generator expressions are folded to lists, which have no position: next() of a *name* would leave the first element in place for the
        # loop that follows.  Only next(<generator expression>[, default]) -- a fresh iterator that is dropped afterwards -- is modelled (e_Call).
        raise HardRefuse("next() of an iterator held in a variable: the folder's lists do not model consumption")

    def c_iter(self, a, kw):
        it = a[0].data if isinstance(a[0], Arr) else a[0]
        if isinstance(it, (list, tuple)) and len(a) == 1:
            return list(it)
        raise Refuse("iter of a non-literal")

    def c_reversed(self, a, kw):
        if isinstance(a[0], (list, tuple, str)):
            return list(reversed(a[0]))
        raise Refuse("reversed")

    def c_sorted(self, a, kw):
        if isinstance(a[0], (list, tuple, frozenset)):
            return sorted(a[0])
        raise Refuse("sorted")

    def c_set(self, a, kw):
        if a[0] is None:
            raise Raised("TypeError")
        if isinstance(a[0], (list, tuple, str, frozenset)):
            return frozenset(a[0])
        raise Refuse("set")

    def c_dict(self, a, kw):
        out = {}
        if a:
            src = a[0]
            if isinstance(src, dict):
                out.update(src)
            elif isinstance(src, (list, tuple)) and all(isinstance(p, (list, tuple)) and len(p) == 2 for p in src):
                for k_, v_ in src:
                    try:
                        hash(k_)
                    except TypeError:
                        raise Refuse("dict key")
                    out[k_] = v_
            else:
                raise Refuse("dict() form")
        out.update(kw)
        return out

    def c_list(self, a, kw):
        return list(a[0]) if a else []

    def c_tuple(self, a, kw):
        return tuple(a[0]) if a else ()

    def c_divmod(self, a, kw):
        if all(isinstance(x, int) for x in a):
            return divmod(*a)
        raise Refuse("divmod")

    def c_int(self, a, kw):
        if isinstance(a[0], int):
            return a[0]
        if isinstance(a[0], Fraction):
            return int(a[0])
        raise Refuse("int()")

    def c_float(self, a, kw):
        if is_num(a[0]):
            return Fraction(a[0]) if not isinstance(a[0], Decimal) else a[0]
        raise Refuse("float()")

    def c_abs(self, a, kw):
        if is_num(a[0]):
            return abs(a[0])
        raise Refuse("abs")

    def c_min(self, a, kw):
        xs = a[0] if len(a) == 1 else a
        return min(xs)

    def c_max(self, a, kw):
        xs = a[0] if len(a) == 1 else a
        return max(xs)

    def c_sum(self, a, kw):
        if self.symbolic and isinstance(a[0], (list, tuple)) and any(isinstance(x, (Sym, Opaque)) for x in a[0]):
            t = None  # the neutral start value is not written into the term
            for x in a[0]:
                t = x if t is None else Sym("+", [t, x])
            return t
        t = 0
        for x in a[0]:
            t = _binop(ast.Add(), t, int(x) if isinstance(x, bool) else x)
        return t

    def c_np_prod(self, a, kw):
        if not self.symbolic and kw.get("axis") == 0 and isinstance(a[0], (list, tuple)) and a[0] and all(isinstance(x, Arr) for x in a[0]) and len({x.shape for x in a[0]}) == 1:
            acc = a[0][0]
            for x in a[0][1:]:
                acc = acc.zip(x, lambda u, v: _binop(ast.Mult(), u, v))
            return acc
        seq = a[0].flat() if isinstance(a[0], Arr) else a[0]
        if self.symbolic and not (isinstance(seq, (list, tuple)) and all(is_num(x) or isinstance(x, float) for x in seq)):
            sy = Sym("np.prod", a, kw)   # symbolic operands: the product stays a term, as for every other numpy routine
            self.trace.append(sy)
            return sy
        if not isinstance(seq, (list, tuple)) or kw.get("axis") is not None or len(a) > 1:
            raise Refuse("np.prod form")
        t = kw.get("start", 1)
        for x in seq:
            t = _binop(ast.Mult(), t, x)
        return t

    def c_np_sqrt(self, a, kw):
        return fsqrt(a[0])

    def c_np_array(self, a, kw):
        v = a[0]

        def go(d):
            if isinstance(d, (list, tuple)):
                return [go(x) for x in d]
            if isinstance(d, Arr):
                return _shallow_nested(d.data)   # np.array copies
            return d

        if isinstance(v, Arr):
            out = Arr(_shallow_nested(v.data))
            out.copied_from = v
            return out
        return Arr(go(v)) if isinstance(v, (list, tuple)) else v

    def c_np_asarray(self, a, kw):
        # no copy when the argument is an array already (a dtype conversion may copy -- the sharing case is the one that matters)
        v = a[0]
        if isinstance(v, Arr):
            return v
        return self.c_np_array(a, kw)

    def c_np_ones(self, a, kw):
        return self._full(a[0], 1)

    def c_np_zeros(self, a, kw):
        return self._full(a[0], 0)

    def c_np_full(self, a, kw):
        val = a[1] if len(a) > 1 else kw.get("fill_value")
        if isinstance(val, bool) or not is_num(val):
            raise Refuse("np.full fill value")
        return self._full(a[0], val)

    # stacking / sorting of literal arrays (constant tables) ------------------------------
    @staticmethod
    def _rows(x):
        x = x.data if isinstance(x, Arr) else x
        if not isinstance(x, list):
            raise Refuse("stacking of a non-array")
        return x

    def c_np_ravel(self, a, kw):
        if isinstance(a[0], Arr) and len(a) == 1 and not kw:
            return Arr(list(a[0].flat()))
        raise Refuse("np.ravel form")

    def c_np_meshgrid(self, a, kw):
        """Coordinate matrices of literal 1-d arrays, numpy's own definition ('xy' swaps the first two axes of the 'ij' result)."""
        xs = [x.data if isinstance(x, Arr) else x for x in a]
        if not xs or not all(isinstance(x, (list, tuple)) and all(not isinstance(e, (list, tuple)) for e in x) for x in xs):
            raise Refuse("np.meshgrid of non-literal / non-1d operands")
        idx = kw.get("indexing", "xy")
        if idx not in ("xy", "ij") or set(kw) - {"indexing"}:
            raise Refuse("np.meshgrid options")
        n = len(xs)
        order = list(range(n))
        if idx == "xy" and n >= 2:
            order[0], order[1] = 1, 0     # output axis 0 runs over the second input, axis 1 over the first
        dims = [len(xs[k]) for k in order]

        def build(k, pos, depth):
            if depth == n:
                return xs[k][pos[order.index(k)]]
            return [build(k, pos + [i], depth + 1) for i in range(dims[depth])]
        return [Arr(build(k, [], 0)) if n else Arr([]) for k in range(n)]

    def c_np_stack(self, a, kw):
        parts = a[0]
        axis = kw.get("axis", a[1] if len(a) > 1 else 0)
        if not isinstance(parts, (list, tuple)) or not parts or not all(isinstance(p_, Arr) for p_ in parts) or len({p_.shape for p_ in parts}) != 1:
            raise Refuse("np.stack form")
        nd = len(parts[0].shape)
        if axis in (0, -(nd + 1)):
            return Arr([copy_nested(p_.data) for p_ in parts])
        if axis in (-1, nd):
            def go(ds):
                return [go([d[i] for d in ds]) for i in range(len(ds[0]))] if isinstance(ds[0], list) else list(ds)
            return Arr(go([p_.data for p_ in parts]))
        raise Refuse("np.stack axis")

    def c_np_vstack(self, a, kw):
        parts = a[0]
        if not isinstance(parts, (list, tuple)) or not parts:
            raise Refuse("vstack form")
        out = []
        for p in parts:
            r = self._rows(p)
            out.extend(copy_nested(r) if r and isinstance(r[0], list) else [copy_nested(r)])
        if any(not isinstance(x, list) or len(x) != len(out[0]) for x in out):
            raise Raised("ValueError")
        return Arr(out)

    def c_np_hstack(self, a, kw):
        parts = a[0]
        if not isinstance(parts, (list, tuple)) or not parts:
            raise Refuse("hstack form")
        rows = [self._rows(p) for p in parts]
        if all(not r or not isinstance(r[0], list) for r in rows):
            return Arr([x for r in rows for x in r])
        if all(r and isinstance(r[0], list) for r in rows) and len({len(r) for r in rows}) == 1:
            return Arr([[x for r in rows for x in r[i]] for i in range(len(rows[0]))])
        raise Refuse("hstack of mixed ranks")

    def c_np_column_stack(self, a, kw):
        parts = a[0]
        if not isinstance(parts, (list, tuple)) or not parts:
            raise Refuse("column_stack form")
        cols = []
        for p in parts:
            r = self._rows(p)
            cols.append([[x] for x in r] if not (r and isinstance(r[0], list)) else r)
        if len({len(c) for c in cols}) != 1:
            raise Raised("ValueError")
        return Arr([[x for c in cols for x in c[i]] for i in range(len(cols[0]))])

    def c_np_concatenate(self, a, kw):
        ax = kw.get("axis", a[1] if len(a) > 1 else 0)
        if ax == 0:
            parts = a[0]
            if not isinstance(parts, (list, tuple)) or not parts:
                raise Refuse("concatenate form")
            out = []
            for p in parts:
                out.extend(copy_nested(self._rows(p)))
            return Arr(out)
        if ax in (1, -1):
            return self.c_np_hstack([a[0]], {})
        raise Refuse("concatenate axis")

    def c_copy_copy(self, a, kw):
        v = a[0]
        if isinstance(v, dict):
            return dict(v)
        if isinstance(v, list):
            return list(v)
        if isinstance(v, (tuple, str, int, Fraction, frozenset)) or v is None:
            return v
        raise Refuse("copy.copy of unknown")

    def c_np_arange(self, a, kw):
        if 1 <= len(a) <= 3 and all(isinstance(x, int) and not isinstance(x, bool) for x in a) and set(kw) <= {"dtype"}:
            return Arr(list(range(*a)))
        raise Refuse("np.arange of non-constants")

    def c_np_delete(self, a, kw):
        x, i = a[0], (a[1] if len(a) > 1 else kw.get("obj"))
        if isinstance(x, (list, tuple)):
            x = Arr(list(x))
        if isinstance(x, Arr) and len(x.shape) == 1 and isinstance(i, int) and not isinstance(i, bool) and -len(x.data) <= i < len(x.data) and not (set(kw) - {"obj"}):
            d = list(x.data)
            del d[i]
            return Arr(d)
        raise Refuse("np.delete form")

    def c_np_tile(self, a, kw):
        x, reps = (a + [None])[:2] if len(a) >= 2 else (a[0], kw.get("reps"))
        if isinstance(x, (list, tuple)):
            x = Arr(list(x))
        if isinstance(x, Arr) and len(x.shape) == 1 and isinstance(reps, int) and not isinstance(reps, bool) and reps >= 0 and not (set(kw) - {"reps"}):
            return Arr(list(x.data) * reps)
        # 2-d array tiled (r, c) times: rows repeated r times as a block, each row repeated c times side by side (numpy's definition)
        if isinstance(x, Arr) and len(x.shape) == 2 and isinstance(reps, (tuple, list)) and len(reps) == 2 and all(isinstance(r_, int) and not isinstance(r_, bool) and r_ >= 0 for r_ in reps) \
                and not self.symbolic and not (set(kw) - {"reps"}):
            rows = [list(row) * reps[1] for row in x.data]
            return Arr([list(r_) for _ in range(reps[0]) for r_ in rows])
        raise Refuse("np.tile form")

    def c_np_repeat(self, a, kw):
        x, reps = (a + [None])[:2] if len(a) >= 2 else (a[0], kw.get("repeats"))
        if isinstance(x, (list, tuple)):
            x = Arr(list(x))
        if isinstance(x, Arr) and len(x.shape) == 1 and isinstance(reps, int) and not isinstance(reps, bool) and reps >= 0 and not (set(kw) - {"repeats"}):
            return Arr([v for v in x.data for _ in range(reps)])
        if isinstance(x, Arr) and len(x.shape) == 2 and isinstance(reps, int) and not isinstance(reps, bool) and reps >= 0 and kw.get("axis") == 0 and not self.symbolic:
            return Arr([list(row) for row in x.data for _ in range(reps)])
        raise Refuse("np.repeat form")

    def c_np_sort(self, a, kw):
        x = a[0]
        if isinstance(x, Arr) and len(x.shape) == 1 and all(is_num(v) for v in x.data) and not kw and len(a) == 1:
            return Arr(sorted(x.data, key=lambda v: Fraction(v) if not isinstance(v, Decimal) else v))
        raise Refuse("np.sort form")

    def c_np_where(self, a, kw):
        if len(a) != 3:
            raise Refuse("np.where form")
        c, x, y = a
        if isinstance(c, Arr) and len(c.shape) == 1 and all(isinstance(v, bool) or (self.symbolic and isinstance(v, Sym)) for v in c.data):
            def pick(v, k):
                if isinstance(v, Arr):
                    if v.shape != c.shape:
                        raise Refuse("np.where operands")
                    return v.data[k]
                if isinstance(v, (list, tuple)):
                    raise Refuse("np.where operands")
                return v
            out = []
            for k, cv in enumerate(c.data):
                xv, yv = pick(x, k), pick(y, k)
                out.append((xv if cv else yv) if isinstance(cv, bool) else Sym("np.where", [cv, xv, yv]))
            return Arr(out)
        if isinstance(c, bool):
            return x if c else y
        if isinstance(c, (list, tuple)) and all(isinstance(v, bool) for v in c) and not isinstance(x, (list, tuple, Arr)) and not isinstance(y, (list, tuple, Arr)):
            return [x if v else y for v in c]
        raise Refuse("np.where operands")

    def _full(self, shape, val):
        if isinstance(shape, int):
            shape = (shape,)
        if not all(isinstance(s, int) for s in shape):
            raise Refuse("shape")

        def go(s):
            return [go(s[1:]) for _ in range(s[0])] if s else val

        return Arr(go(tuple(shape)))

    def c_np_sum(self, a, kw):
        if isinstance(a[0], Arr) and "axis" not in kw and len(a) == 1:
            t = 0
            for x in a[0].flat():
                t = _binop(ast.Add(), t, x)
            return t
        raise Refuse("np.sum form")

    # -- statements ----------------------------------------------------------------
    def call(self, fnode: ast.FunctionDef, args, kw=None, base_env=None):
        """Fold a function on concrete arguments: returns value or raises Raised/Refuse."""
        kw = dict(kw or {})
        a = fnode.args
        names = [x.arg for x in a.posonlyargs + a.args]
        env = dict(base_env) if base_env is not None else {}
        for nme in names:
            env.pop(nme, None)
        if len(args) > len(names):
            raise Refuse("too many args")
        for nme, v in zip(names, args):
            env[nme] = v
        defaults = a.defaults
        for nme, d in zip(names[len(names) - len(defaults):], defaults):
            if nme not in env and nme not in kw:
                env[nme] = self.ev(d, {})
        for k, v in kw.items():
            env[k] = v
        for x, d in zip(a.kwonlyargs, a.kw_defaults):
            if x.arg not in env and d is not None:
                env[x.arg] = self.ev(d, {})
        if a.kwarg is not None:
            extra = {k: env.pop(k) for k in list(env) if k not in names and k not in [x.arg for x in a.kwonlyargs]}
            env[a.kwarg.arg] = extra
        if a.vararg is not None:
            env[a.vararg.arg] = ()
        for nme in names:
            if nme not in env:
                raise Refuse(f"missing arg {nme}")
        self.func_stack.append(fnode)
        gen = _is_generator(fnode)
        if gen:
            # a generator function: folded eagerly into the list of what it yields; sound only when its body has no recorded effect
            # (the interleaving of the body with its consumer is then unobservable)
            self.yield_stack.append([])
            mark = len(self.trace)
        try:
            self.block(fnode.body, env)
        except _Return as r:
            if not gen:
                return r.value
        finally:
            self.func_stack.pop()
            if gen:
                ys = self.yield_stack.pop()
        if gen:
            if len(self.trace) != mark:
                raise Refuse("generator with recorded effects")
            return ys
        return None

    def block(self, body, env):
        for st in body:
            self.stmt(st, env)

    def stmt(self, st, env):
        self.steps += 1
        if self.steps > self.max_steps:
            raise Refuse("step bound exceeded")
        if isinstance(st, ast.Return):
            raise _Return(self.ev(st.value, env) if st.value is not None else None)
        if isinstance(st, ast.Raise):
            name = "Exception"
            e = st.exc
            if isinstance(e, ast.Call):
                e = e.func
            if isinstance(e, ast.Name):
                name = e.id
                cf = self._ctx_func()
                if cf is not None and name in cf.module.funcs and isinstance(st.exc, ast.Call):
                    # an exception built by a helper of the module: the helper's returns name the class
                    rets = {r.value.func.id if isinstance(r.value, ast.Call) and isinstance(r.value.func, ast.Name) else None
                            for r in ast.walk(cf.module.funcs[name].node) if isinstance(r, ast.Return)}
                    if len(rets) == 1 and None not in rets:
                        name = rets.pop()
                    else:
                        raise Refuse(f"exception built by {name}: class not found")
            raise Raised(name, st)
        if isinstance(st, ast.Try) and not getattr(st, "finalbody", None):
            # try / except without finally: a raised exception (of the folding language) selects the first handler that names it, a parent
            # of it, or nothing; exceptions the handlers do not name propagate
            PARENTS = {"KeyError": ("LookupError",), "IndexError": ("LookupError",), "ZeroDivisionError": ("ArithmeticError",), "AxisError": ("ValueError", "IndexError"),
                       "NotImplementedError": ("RuntimeError",), "FileNotFoundError": ("OSError",), "UnboundLocalError": ("NameError",)}
            try:
                self.block(st.body, env)
            except Raised as r:
                names = {r.name, "Exception", "BaseException"} | set(PARENTS.get(r.name, ()))
                for h in st.handlers:
                    hn = [h.type] if h.type is not None and not isinstance(h.type, ast.Tuple) else (list(h.type.elts) if h.type is not None else [])
                    hnames = {(x.id if isinstance(x, ast.Name) else getattr(x, "attr", None)) for x in hn}
                    if h.type is None or hnames & names:
                        if h.name:
                            env[h.name] = Opaque("exception", r.name)
                        self.block(h.body, env)
                        return
                raise
            else:
                self.block(st.orelse, env)
            return
        if isinstance(st, ast.If):
            if self.truth(self.ev(st.test, env)):
                self.block(st.body, env)
            else:
                self.block(st.orelse, env)
            return
        if isinstance(st, ast.Assign):
            v = self.ev(st.value, env)
            for t in st.targets:
                self.assign(t, v, env)
            return
        if isinstance(st, ast.AnnAssign):
            if st.value is not None:
                self.assign(st.target, self.ev(st.value, env), env)
            return
        if isinstance(st, ast.AugAssign):
            cur = self.ev(ast.Name(id=st.target.id, ctx=ast.Load()), env) if isinstance(st.target, ast.Name) else None
            if self.symbolic and isinstance(st.target, ast.Subscript) and type(st.op) in self._OPSYM:
                # in-place update of part of an array: recorded, in order (container, index, operator, operand)
                c = self.ev(st.target.value, env)
                if isinstance(c, (Arr, list)):
                    # a concrete container and a concrete position: the entry is updated in place (Python semantics; every alias sees it)
                    i = self.ev(st.target.slice, env)
                    idx = (i,) if isinstance(i, int) and not isinstance(i, bool) else (i if isinstance(i, tuple) and all(isinstance(x, int) and not isinstance(x, bool) for x in i) else None)
                    if idx is not None and (isinstance(c, Arr) or len(idx) == 1):
                        val = self.ev(st.value, env)
                        cur_ = c.data if isinstance(c, Arr) else c
                        try:
                            for x in idx[:-1]:
                                cur_ = cur_[x]
                            old = cur_[idx[-1]]
                        except (IndexError, TypeError):
                            raise Raised("IndexError", st)
                        if not isinstance(old, list):
                            if is_num(old) and is_num(val):
                                cur_[idx[-1]] = _binop(st.op, old, val)
                            else:
                                cur_[idx[-1]] = Sym(self._OPSYM[type(st.op)], [old, val])
                            if isinstance(c, Arr):
                                c.__dict__.setdefault("updated_in_place", []).append((idx, self._OPSYM[type(st.op)], val))
                            return
                if isinstance(c, (Arr, Sym, Opaque)):
                    if is_allocation(c):
                        self.trace.append(Sym("augitem", [c, self.ev(st.target.slice, env), self._OPSYM[type(st.op)], self.ev(st.value, env)]))
                    else:
                        self._rebind(st.target.value, Sym("upd", [c, self.ev(st.target.slice, env), self._OPSYM[type(st.op)], self.ev(st.value, env)]), env)
                    return
            if cur is None and isinstance(st.target, ast.Attribute):
                # obj.attr op= v: read, combine, store back (aliases of a symbolic value are terms, not objects: nothing else to update)
                cur = self.ev(ast.Attribute(value=st.target.value, attr=st.target.attr, ctx=ast.Load()), env)
            if cur is None and not isinstance(st.target, ast.Name):
                raise Refuse("augassign target")
            val = self.ev(st.value, env)
            if isinstance(cur, list) and isinstance(st.op, ast.Add) and isinstance(val, (list, tuple)):
                cur.extend(val)   # python semantics: += on a list extends the same object (every alias sees it)
                return
            if self.symbolic and (isinstance(cur, (Sym, Opaque)) or isinstance(val, (Sym, Opaque))) and type(st.op) in self._OPSYM:
                self.assign(st.target, Sym(self._OPSYM[type(st.op)], [cur, val]), env)
                return
            self.assign(st.target, _binop(st.op, cur, val), env)
            return
        if isinstance(st, ast.Assert):
            if not self.truth(self.ev(st.test, env)):
                raise Raised("AssertionError", st)
            return
        if isinstance(st, ast.Expr):
            if isinstance(st.value, ast.Constant):
                return
            if isinstance(st.value, ast.Yield) and self.yield_stack:
                self.yield_stack[-1].append(self.ev(st.value.value, env) if st.value.value is not None else None)
                return
            if isinstance(st.value, ast.YieldFrom) and self.yield_stack:
                it = self.ev(st.value.value, env)
                if not isinstance(it, (list, tuple)):
                    raise Refuse("yield from non-literal")
                self.yield_stack[-1].extend(it)
                return
            self.ev(st.value, env)
            return
        if isinstance(st, ast.Pass):
            return
        if isinstance(st, ast.With) and self.symbolic:
            # context managers are entered for their value only (warnings filters, timers): body folded in place
            for it in st.items:
                v = self.ev(it.context_expr, env)
                if it.optional_vars is not None:
                    self.assign(it.optional_vars, v, env)
            self.block(st.body, env)
            return
        if isinstance(st, ast.For):
            it = self.ev(st.iter, env)
            if isinstance(it, Arr) and len(it.shape) == 1:
                it = list(it.data)
            if not isinstance(it, (list, tuple, str)):
                raise Refuse("for over non-literal")
            broke = False
            for x in it:
                self.assign(st.target, x, env)
                try:
                    self.block(st.body, env)
                except _Break:
                    broke = True
                    break
                except _Continue:
                    continue
            if not broke:
                self.block(st.orelse, env)
            return
        if isinstance(st, ast.FunctionDef) and not st.decorator_list:
            env[st.name] = _Closure(st, env)
            return
        if isinstance(st, ast.Break):
            raise _Break()
        if isinstance(st, ast.Continue):
            raise _Continue()
        raise Refuse(f"statement kind {type(st).__name__}")

    def assign(self, t, v, env):
        if isinstance(t, ast.Name):
            env[t.id] = v
        elif isinstance(t, (ast.Tuple, ast.List)):
            vs = v.data if isinstance(v, Arr) else v
            if self.symbolic and isinstance(v, (Sym, Opaque)) and not any(isinstance(e, ast.Starred) for e in t.elts):
                # unpacking a symbolic sequence: its items, by position
                label = v.label if isinstance(v, Opaque) else repr(v)
                vs = [Sym(f"{label}[{i}]", recv=v, attr="[]", index=("value", i)) for i in range(len(t.elts))]
            if not isinstance(vs, (list, tuple)) or len(vs) != len(t.elts):
                raise Refuse("unpack")
            for tt, vv in zip(t.elts, vs):
                self.assign(tt, vv, env)
        elif isinstance(t, ast.Attribute):
            o = self.ev(t.value, env)
            if self.symbolic and isinstance(o, (Sym, Opaque)):
                self.trace.append(Sym("setattr", [o, t.attr, v]))
                return
            if not isinstance(o, Obj):
                raise Refuse("attribute store on non-object")
            o.fields[t.attr] = v
        elif isinstance(t, ast.Subscript):
            c = self.ev(t.value, env)
            i = self.ev(t.slice, env)
            if isinstance(c, (list, dict)):
                c[i] = v
            elif isinstance(c, Arr) and (isinstance(i, int) or (isinstance(i, tuple) and all(isinstance(x, int) and not isinstance(x, bool) for x in i))):
                idx = (i,) if isinstance(i, int) else i
                cur = c.data
                try:
                    for x in idx[:-1]:
                        cur = cur[x]
                    if isinstance(cur[idx[-1]], list):
                        raise Refuse("partial index store into an array")
                    cur[idx[-1]] = v
                except (IndexError, TypeError):
                    raise Raised("IndexError", t)
            elif self.symbolic and isinstance(c, (Sym, Opaque, Arr)):
                if is_allocation(c):
                    # a store into a freshly allocated table: recorded, in order (the rules that read the table read these records)
                    self.trace.append(Sym("setitem", [c, i, v]))
                else:
                    # any other symbolic array: the name / attribute it is reached through is re-bound to the updated value
                    self._rebind(t.value, Sym("upd", [c, i, "=", v]), env)
            else:
                raise Refuse("subscript store")
        else:
            raise Refuse("assign target")


def table(fnode, domain, folder=None):
    """Enumerate a finite literal domain: {args: ('ret', value) | ('raise', name) }."""
    folder = folder or Folder()
    out = {}
    for args in itertools.product(*domain):
        try:
            out[args] = ("ret", folder.call(fnode, list(args)))
        except Raised as r:
            out[args] = ("raise", r.name)
    return out
