"""Alpha-matching: compare source constructs with templates up to a consistent renaming of local variables.

A template is ordinary Python text (an expression or one or more statements).  Every Name in a template that is not a
parameter of the function under analysis, not `self`, not a module-level / imported / builtin name is a *placeholder*
for a local variable: it may match any local name of the function, but consistently (one binding per matcher, injective).
Everything else -- structure, attribute names, keyword names, constants, operators -- must agree exactly.  This makes the
rules insensitive to how locals are spelled while still comparing real syntax trees, not text.
"""
from __future__ import annotations

import ast
import builtins

_SKIP_FIELDS = {"ctx", "lineno", "col_offset", "end_lineno", "end_col_offset", "type_comment", "kind"}

# every failed template match is logged with the best similarity found (share of the template's nodes that do match at the
# closest candidate); the report uses it to tell a deviation from a recognised idiom (near miss) from an unrecognised shape
MISS_LOG: list = []


def take_misses():
    out = list(MISS_LOG)
    MISS_LOG.clear()
    return out


def _size(t):
    if isinstance(t, list):
        return sum(_size(x) for x in t)
    if isinstance(t, ast.AST):
        return 1 + sum(_size(getattr(t, f, None)) for f in t._fields if f not in _SKIP_FIELDS)
    return 1 if t is not None else 0


def _locals_of(fnode):
    names = set()
    for n in ast.walk(fnode):
        if isinstance(n, ast.Name) and isinstance(n.ctx, (ast.Store, ast.Del)):
            names.add(n.id)
        elif isinstance(n, (ast.FunctionDef, ast.AsyncFunctionDef)) and n is not fnode:
            names.add(n.name)
            for a in n.args.posonlyargs + n.args.args + n.args.kwonlyargs:
                names.add(a.arg)
        elif isinstance(n, ast.ExceptHandler) and n.name:
            names.add(n.name)
    return names


def helper_closure(func, max_depth=3):
    """Repository functions reachable from func through calls `self.h(...)` / `h(...)` that resolve in the model (the function
    itself first): a template that is not found in the anchored function is looked for in the helpers it delegates to."""
    from . import flow

    model = flow.MODEL
    out, seen = [func], {id(func.node)}
    if model is None:
        return out
    frontier = [(func, 0)]
    while frontier:
        f, d = frontier.pop(0)
        if d >= max_depth:
            continue
        for c in ast.walk(f.node):
            if isinstance(c, ast.Call):
                try:
                    g = model.resolve_call(c, f)
                except Exception:
                    g = None
                if g is not None and hasattr(g, "node") and isinstance(g.node, ast.FunctionDef) and id(g.node) not in seen and g.module is f.module:
                    seen.add(id(g.node))
                    out.append(g)
                    frontier.append((g, d + 1))
    return out


def has_in_helpers(func, template, lets=()):
    """(node, AM, function) of the first match of the statement / expression template in func or in a helper of the same module that
    func (transitively) calls; inside helpers the helper's own parameters may stand for the template's placeholders."""
    for i, g in enumerate(helper_closure(func)):
        am = AM(g, params_bindable=(i > 0))
        for name, tpl in lets:
            am.let(name, tpl)
        n = am.has(g.node, template)
        if n is not None and am.let_params and not _callers_pass_lets(func, g, am, dict(lets)):
            n = None
        if n is not None:
            take_last_miss()
            return n, am, g
    return None, None, None


def _callers_pass_lets(func, g, am, lets):
    """Where a helper parameter stands for a `let` temporary of the template, every call of the helper from the anchored function's
    closure must pass an argument that matches that temporary's template."""
    from . import flow

    model = flow.MODEL
    if model is None:
        return False
    params = [x.arg for x in g.node.args.args]
    offset = 1 if params and params[0] in ("self", "cls") else 0
    seen_call = False
    for h in helper_closure(func):
        for c in ast.walk(h.node):
            if not isinstance(c, ast.Call):
                continue
            try:
                t = model.resolve_call(c, h)
            except Exception:
                t = None
            if t is None or getattr(t, "node", None) is not g.node:
                continue
            seen_call = True
            for let_name, pname in am.let_params.items():
                idx = params.index(pname) - offset
                arg = c.args[idx] if 0 <= idx < len(c.args) else next((k.value for k in c.keywords if k.arg == pname), None)
                if arg is None:
                    return False
                am_c = AM(h, params_bindable=(h is not func))
                for n2, tpl2 in lets.items():
                    if n2 != let_name:
                        am_c.let(n2, tpl2)
                if not am_c.eq(flow.expand(h.node, arg), lets[let_name]):
                    take_last_miss()
                    return False
    return seen_call


def take_last_miss():
    if MISS_LOG:
        MISS_LOG.pop()


class AM:
    def __init__(self, func, extra_fixed=(), params_bindable=False):
        self.func = func
        a = func.node.args
        self.params = {x.arg for x in a.posonlyargs + a.args + a.kwonlyargs}
        if a.vararg:
            self.params.add(a.vararg.arg)
        if a.kwarg:
            self.params.add(a.kwarg.arg)
        self.locals = _locals_of(func.node) - self.params
        self.params_bindable = params_bindable
        self.bindable_params = {p_ for p_ in self.params if p_ not in ("self", "cls")} if params_bindable else set()
        self.let_params = {}   # let name -> helper parameter that stands for it
        if params_bindable:
            # a helper's parameters are locals of the computation that was moved into it
            self.locals |= {p_ for p_ in self.params if p_ not in ("self", "cls")}
            self.params = {p_ for p_ in self.params if p_ in ("self", "cls")}
        mod = func.module
        self.fixed = set(self.params) | {"self", "cls"} | set(dir(builtins)) | set(mod.imports) | set(mod.funcs) | set(mod.classes) | set(mod.assigns) | set(extra_fixed)
        for s in mod.star:
            self.fixed.add(s)
        self.bind = {}
        self._cache = {}
        self.lets = {}
        self.syn = []   # sets of callee names the rule declares interchangeable at its templates (e.g. {"np.concatenate", "np.hstack"} for 1-d pieces)
        # locals bound exactly once by `name = value`: the matcher sees through them (a template written in inlined form also
        # matches code that names a sub-expression first)
        stores = {}
        from .flow import own_scope
        for n in own_scope(func.node):
            if isinstance(n, ast.Name) and isinstance(n.ctx, (ast.Store, ast.Del)):
                stores[n.id] = stores.get(n.id, 0) + 1
        for n in ast.walk(func.node):
            if isinstance(n, (ast.Global, ast.Nonlocal)):
                for x in n.names:
                    stores[x] = stores.get(x, 0) + 2
        self.single = {}
        self.defs = {}
        for n in ast.walk(func.node):
            if isinstance(n, ast.Assign) and len(n.targets) == 1 and isinstance(n.targets[0], ast.Name):
                t = n.targets[0].id
                self.defs.setdefault(t, []).append(n.value)
                if stores.get(t) == 1 and t not in self.params:
                    self.single[t] = n.value

    def let(self, name, template):
        """Declare a template-level temporary: `name` in later templates stands for the expression `template`, whether the
        code names that expression (any local whose definition matches) or writes it in place."""
        self.lets[name] = self.parse(template)
        return self

    # -- templates -----------------------------------------------------------------
    def parse(self, template):
        t = self._cache.get(template)
        if t is None:
            mod = ast.parse(template)
            from .normalize import _n2, _n4, _n5
            _n2(mod)
            mod = _n5(mod)
            ast.fix_missing_locations(mod)
            _n4(mod)
            if len(mod.body) == 1 and isinstance(mod.body[0], ast.Expr):
                t = mod.body[0].value
            elif len(mod.body) == 1:
                t = mod.body[0]
            else:
                t = mod.body
            # developer guard: a template that assigns to a module-level name would silently stop matching once the local is renamed
            for n in ast.walk(mod):
                if isinstance(n, ast.Name) and isinstance(n.ctx, ast.Store) and n.id in self.fixed and n.id not in self.params:
                    raise ValueError(f"template `{template}` stores to the non-local name `{n.id}`; use another placeholder")
            self._cache[template] = t
        return t

    def is_placeholder(self, name):
        return name not in self.fixed

    # -- matching ------------------------------------------------------------------
    def _m(self, t, a, b):
        if isinstance(t, list) or isinstance(a, list):
            if not (isinstance(t, list) and isinstance(a, list)) or len(t) != len(a):
                return False
            return all(self._m(x, y, b) for x, y in zip(t, a))
        if isinstance(t, ast.AST):
            if isinstance(t, ast.Name):
                if not isinstance(a, ast.Name):
                    if t.id in self.lets and t.id not in b and isinstance(a, ast.expr):
                        return self._m(self.lets[t.id], a, b)
                    return False
                if t.id in self.lets:
                    if t.id in b:
                        return b[t.id] == a.id
                    if self.params_bindable and a.id in self.bindable_params and a.id not in b.values():
                        # a helper's parameter stands for the temporary: its value is what the caller passes (recorded for the caller-side check)
                        b[t.id] = a.id
                        self.let_params[t.id] = a.id
                        return True
                    if a.id in self.defs and a.id not in self.params:
                        for v in self.defs[a.id]:
                            b2 = dict(b)
                            if self._m(self.lets[t.id], v, b2) and a.id not in b2.values():
                                b.update(b2)
                                b[t.id] = a.id
                                return True
                    return False
                if self.is_placeholder(t.id):
                    if t.id in b:
                        return b[t.id] == a.id
                    if a.id in b.values():
                        return False  # injective
                    if a.id not in self.locals and a.id != t.id:
                        return False  # a placeholder only stands for a local variable
                    b[t.id] = a.id
                    return True
                return t.id == a.id
            if type(t) is not type(a):
                if isinstance(a, ast.Name) and isinstance(a.ctx, ast.Load) and a.id in self.single and isinstance(t, ast.expr):
                    return self._m(t, self.single[a.id], b)
                return False
            if isinstance(t, ast.Call) and self.syn and not isinstance(t.func, ast.Name):
                try:
                    dt, da = ast.unparse(t.func), ast.unparse(a.func)
                except Exception:
                    dt = da = None
                if dt != da and any(dt in cls and da in cls for cls in self.syn):
                    return self._m(t.args, a.args, b) and self._m(t.keywords, a.keywords, b)
            if isinstance(t, ast.Compare) and len(t.ops) == 1 and isinstance(t.ops[0], (ast.Eq, ast.NotEq)) and len(a.ops) == 1 and type(a.ops[0]) is type(t.ops[0]):
                b1 = dict(b)
                if self._m(t.left, a.left, b1) and self._m(t.comparators[0], a.comparators[0], b1):
                    b.update(b1)
                    return True
                b2 = dict(b)
                if self._m(t.left, a.comparators[0], b2) and self._m(t.comparators[0], a.left, b2):
                    b.update(b2)
                    return True
                return False
            for f in t._fields:
                if f in _SKIP_FIELDS:
                    continue
                if not self._m(getattr(t, f, None), getattr(a, f, None), b):
                    return False
            return True
        return t == a

    # -- similarity (for diagnostics and for the near-miss / unrecognised distinction) ------------------------------
    def _score(self, t, a, b):
        """Number of template nodes that match at `a` (top-down, positional)."""
        if isinstance(t, list):
            if not isinstance(a, list):
                return 0
            return sum(self._score(x, y, b) for x, y in zip(t, a))
        if isinstance(t, ast.AST):
            if isinstance(t, ast.Name):
                if t.id in self.lets:
                    return max(self._score(self.lets[t.id], a, b), 1 if isinstance(a, ast.Name) else 0)
                if isinstance(a, ast.Name):
                    if self.is_placeholder(t.id):
                        return 2 if b.get(t.id, a.id) == a.id else 1
                    return 2 if t.id == a.id else 1
                if isinstance(a, ast.expr) and self.is_placeholder(t.id):
                    return 1
                return 0
            if type(t) is not type(a):
                if isinstance(a, ast.Name) and a.id in self.single and isinstance(t, ast.expr):
                    return self._score(t, self.single[a.id], b)
                return 0
            n = 1
            for f in t._fields:
                if f in _SKIP_FIELDS:
                    continue
                n += self._score(getattr(t, f, None), getattr(a, f, None), b)
            return n
        return 1 if (t == a and t is not None) else 0

    def _log_miss(self, template_text, t, candidates):
        tot = max(_size(t), 1)
        best, where = 0, None
        for c in candidates:
            sc = self._score(t, c, dict(self.bind))
            if sc > best:
                best, where = sc, c
        try:
            txt = ast.unparse(where)[:120] if isinstance(where, ast.AST) else ""
        except Exception:
            txt = ""
        MISS_LOG.append((best / tot, template_text if isinstance(template_text, str) else "<template>", txt))

    def eq(self, node, template):
        """node (AST or list of statements) matches template under the current binding; commits new bindings."""
        t = self.parse(template) if isinstance(template, str) else template
        if isinstance(node, str):
            node = self.parse(node)
        b = dict(self.bind)
        if isinstance(t, list) and not isinstance(node, list):
            return False
        if isinstance(node, list) and not isinstance(t, list):
            t = [t]
        if self._m(t, node, b):
            self.bind = b
            return True
        self._log_miss(template, t, [node])
        return False

    def eq_block(self, stmts, templates):
        """Statement list equals the list of templates (in order)."""
        ts = [self.parse(tpl) for tpl in templates]
        if len(stmts) != len(templates) or any(isinstance(t, list) for t in ts):
            self._log_miss(" ; ".join(templates), [t for t in ts if not isinstance(t, list)], [[(s.value if isinstance(s, ast.Expr) and isinstance(t, ast.expr) else s) for s, t in zip(stmts, ts)]])
            return False
        b = dict(self.bind)
        for s, t in zip(stmts, ts):
            if isinstance(s, ast.Expr) and isinstance(t, ast.expr):
                s = s.value
            if not self._m(t, s, b):
                self._log_miss(" ; ".join(templates), ts, [[(x.value if isinstance(x, ast.Expr) and isinstance(y, ast.expr) else x) for x, y in zip(stmts, ts)]])
                return False
        self.bind = b
        return True

    def find(self, nodes, template):
        """First node in `nodes` (iterable of AST nodes) matching the template; commits the binding."""
        t = self.parse(template)
        nodes = list(nodes)
        for n in nodes:
            b = dict(self.bind)
            if self._m(t, n, b):
                self.bind = b
                return n
        self._log_miss(template, t, nodes)
        return None

    def find_all(self, nodes, template):
        t = self.parse(template)
        out = []
        for n in nodes:
            b = dict(self.bind)
            if self._m(t, n, b):
                out.append(n)
        return out

    def has(self, root, template, kinds=None):
        """Some sub-node of root (statement or expression) matches the template."""
        t = self.parse(template)
        typ = type(t) if not isinstance(t, list) else None
        cands = []
        for n in ast.walk(root) if isinstance(root, ast.AST) else (x for r in root for x in ast.walk(r)):
            if typ is not None and type(n) is not typ:
                continue
            b = dict(self.bind)
            if self._m(t, n, b):
                self.bind = b
                return n
            cands.append(n)
        self._log_miss(template, t, cands)
        return None

    def actual(self, placeholder):
        return self.bind.get(placeholder)

    def show(self):
        return {k: v for k, v in self.bind.items() if k != v}


def stmts_of(fnode, kinds=(ast.Assign, ast.AugAssign, ast.AnnAssign, ast.Expr, ast.Return)):
    return [s for s in ast.walk(fnode) if isinstance(s, kinds)]
