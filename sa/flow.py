"""E8 -- small provenance helpers shared by the rules (role-based loop extraction, slices)."""
from __future__ import annotations

import ast

from .srcmodel import norm


class RoleRenamer(ast.NodeTransformer):
    """Rename local names to role names so that normal forms do not depend on spelling."""

    def __init__(self, roles):
        self.roles = roles

    def visit_Name(self, n):
        if n.id in self.roles:
            return ast.copy_location(ast.Name(id=self.roles[n.id], ctx=n.ctx), n)
        return n


def rename(node, roles):
    return RoleRenamer(roles).visit(clone(node))


def calls_in(node):
    for n in ast.walk(node):
        if isinstance(n, ast.Call):
            yield n


class AxisLoop:
    """A `for` loop that looks an axis up through interpret_indexing.

    roles: counter ($k), element ($e), pos ($p), revert ($r).
    """

    def __init__(self, loop, call, assign, roles, counter, element):
        self.loop, self.call, self.assign, self.roles = loop, call, assign, roles
        self.counter, self.element = counter, element


def axis_loops(model, func, interp):
    """All for-loops in `func` whose body unpacks a call of interpret_indexing."""
    out = []
    for loop in ast.walk(func.node):
        if not isinstance(loop, ast.For):
            continue
        counter = element = None
        it = loop.iter
        if isinstance(it, ast.Call) and isinstance(it.func, ast.Name) and it.func.id == "enumerate" and isinstance(loop.target, ast.Tuple) and len(loop.target.elts) == 2:
            counter, element = (e.id if isinstance(e, ast.Name) else None for e in loop.target.elts)
            iterable = it.args[0]
        elif isinstance(loop.target, ast.Name):
            element = loop.target.id
            iterable = it
            if isinstance(it, ast.Call) and isinstance(it.func, ast.Name) and it.func.id == "range":
                counter, element = element, None
        else:
            continue
        for st in loop.body:
            if (isinstance(st, ast.Assign) and isinstance(st.value, ast.Call) and model.resolve_call(st.value, func) is interp
                    and isinstance(st.targets[0], ast.Tuple) and len(st.targets[0].elts) == 2):
                pos, rev = st.targets[0].elts
                roles = {}
                if counter:
                    roles[counter] = "$k"
                if element:
                    roles[element] = "$e"
                if isinstance(pos, ast.Name):
                    roles[pos.id] = "$p"
                if isinstance(rev, ast.Name) and rev.id != "_":
                    roles[rev.id] = "$r"
                al = AxisLoop(loop, st.value, st, roles, counter, element)
                al.iterable = iterable
                out.append(al)
                break
    return out


def single_assign_env(stmts, names=None):
    """name -> value expr for names assigned exactly once in the statement list (no nesting)."""
    cnt, val = {}, {}
    for st in stmts:
        if isinstance(st, ast.Assign) and len(st.targets) == 1 and isinstance(st.targets[0], ast.Name):
            k = st.targets[0].id
            cnt[k] = cnt.get(k, 0) + 1
            val[k] = st.value
    return {k: v for k, v in val.items() if cnt[k] == 1 and (names is None or k in names)}


def clone(node):
    """Structural copy of an AST (fields only): the `_parent` / `_file` annotations of the model are not followed, so copying a
    sub-expression does not drag the whole module along."""
    if isinstance(node, list):
        return [clone(x) for x in node]
    if not isinstance(node, ast.AST):
        return node
    new = type(node)()
    for f in node._fields:
        if hasattr(node, f):
            setattr(new, f, clone(getattr(node, f)))
    for a in ("lineno", "col_offset", "end_lineno", "end_col_offset"):
        if hasattr(node, a):
            setattr(new, a, getattr(node, a))
    if hasattr(node, "_file"):
        new._file = node._file
    return new


def own_scope(fnode):
    """Nodes of the function's own scope: nested function / lambda / class bodies are other scopes and are skipped."""
    stack = list(ast.iter_child_nodes(fnode))
    while stack:
        n = stack.pop()
        yield n
        if isinstance(n, (ast.FunctionDef, ast.AsyncFunctionDef, ast.Lambda, ast.ClassDef)):
            continue
        stack.extend(ast.iter_child_nodes(n))


MODEL = None  # set by the runner: lets expand() look through calls of one-expression helpers of the repository


def set_model(model):
    global MODEL
    MODEL = model
    model._func_of_node = {id(f.node): f for f in model.all_funcs()}


def _inline_helper_call(call, func, depth):
    """`self._h(a, b)` / `h(a, b)` where h is a repository function whose (normalised) body is a single `return E`:
    E with the parameters replaced by the arguments; None when that does not apply."""
    if MODEL is None or func is None or depth > 3:
        return None
    try:
        g = MODEL.resolve_call(call, func)
    except Exception:
        return None
    if g is None or not hasattr(g, "node") or not isinstance(g.node, (ast.FunctionDef,)) or g.node is func.node:
        return None
    if any(not (isinstance(d, ast.Name) and d.id in ("staticmethod", "classmethod")) for d in g.node.decorator_list):
        return None
    body = [s_ for s_ in g.node.body if not (isinstance(s_, ast.Expr) and isinstance(s_.value, ast.Constant))]
    if len(body) != 1 or not isinstance(body[0], ast.Return) or body[0].value is None:
        return None
    a = g.node.args
    if a.vararg or a.kwarg or a.kwonlyargs or a.posonlyargs or any(isinstance(x, ast.Starred) for x in call.args) or any(k.arg is None for k in call.keywords):
        return None
    params = [x.arg for x in a.args]
    is_method = getattr(g, "cls", None) is not None and params and params[0] in ("self", "cls")
    if is_method:
        params = params[1:]
    if len(call.args) > len(params):
        return None
    bind = dict(zip(params, call.args))
    for k in call.keywords:
        if k.arg not in params or k.arg in bind:
            return None
        bind[k.arg] = k.value
    defaults = dict(zip(reversed(params), reversed(a.defaults)))
    for p_ in params:
        if p_ not in bind:
            if p_ not in defaults:
                return None
            bind[p_] = defaults[p_]
    # no capture problems: the helper body may only mention its parameters, self and globals
    locals_ = {x.id for x in ast.walk(body[0].value) if isinstance(x, ast.Name) and isinstance(x.ctx, ast.Store)}

    class Sub(ast.NodeTransformer):
        def visit_Name(self, n):
            if isinstance(n.ctx, ast.Load) and n.id in bind and n.id not in locals_:
                return clone(bind[n.id])
            return n
    return Sub().visit(clone(body[0].value)), g


def expand(fnode, expr, max_depth=8, helpers=False):
    """Copy of `expr` in which every local that the function binds exactly once (plain `name = value`, not a parameter,
    not inside a loop that could rebind it differently per iteration relative to the use) is replaced by its value,
    recursively.  Gives one representative for code that differs only in which sub-expressions are named."""
    import copy

    params = {a.arg for a in fnode.args.posonlyargs + fnode.args.args + fnode.args.kwonlyargs}
    if fnode.args.vararg:
        params.add(fnode.args.vararg.arg)
    if fnode.args.kwarg:
        params.add(fnode.args.kwarg.arg)
    stores = {}
    for n in own_scope(fnode):
        if isinstance(n, ast.Name) and isinstance(n.ctx, (ast.Store, ast.Del)):
            stores[n.id] = stores.get(n.id, 0) + 1
    for n in ast.walk(fnode):
        if isinstance(n, (ast.Global, ast.Nonlocal)):
            for x in n.names:
                stores[x] = stores.get(x, 0) + 2
    single = {}
    for n in own_scope(fnode):
        if isinstance(n, ast.Assign) and len(n.targets) == 1 and isinstance(n.targets[0], (ast.Tuple, ast.List)) and isinstance(n.value, (ast.Tuple, ast.List)) \
                and len(n.targets[0].elts) == len(n.value.elts) and all(isinstance(e, ast.Name) for e in n.targets[0].elts):
            for te, ve in zip(n.targets[0].elts, n.value.elts):
                if stores.get(te.id) == 1 and te.id not in params:
                    single[te.id] = ve
        if isinstance(n, ast.Assign) and len(n.targets) == 1 and isinstance(n.targets[0], ast.Name):
            t = n.targets[0].id
            if stores.get(t) == 1 and t not in params:
                single[t] = n.value

    func = None
    if MODEL is not None:
        # a nested function resolves calls as its enclosing method does (self, module globals are the closure's)
        cur = fnode
        reg = getattr(MODEL, "_func_of_node", {})
        while cur is not None and func is None:
            if isinstance(cur, ast.FunctionDef):
                func = reg.get(id(cur))
                if func is None and "self" in {a.arg for a in cur.args.args} and cur is not fnode:
                    break
            cur = getattr(cur, "_parent", None)

    class Sub(ast.NodeTransformer):
        def __init__(self, depth, seen):
            self.depth, self.seen = depth, seen

        def visit_Name(self, n):
            if isinstance(n.ctx, ast.Load) and n.id in single and n.id not in self.seen and self.depth < max_depth:
                return Sub(self.depth + 1, self.seen | {n.id}).visit(clone(single[n.id]))
            return n

        def visit_Call(self, n):
            self.generic_visit(n)
            r = _inline_helper_call(n, func, self.depth) if helpers else None
            if r is not None:
                return r[0]
            return n

    out = Sub(0, frozenset()).visit(clone(expr))
    # substitution can create spellings that the canonical form would have rewritten (np.tile(np.array([..]), n), ...): normalise again
    from .normalize import _n4, _n5

    holder = ast.Expression(body=out)
    holder = _n5(holder)
    _n4(holder)
    ast.fix_missing_locations(holder)
    return holder.body


def explicit_keywords(fnode, call):
    """Keywords of `call` with `**name` resolved where `name` is a local bound exactly once to a dict display with constant string keys
    (or `dict(k=v, ...)`) and never stored into or passed to a mutating method afterwards.  None when a `**` argument cannot be resolved."""
    out = []
    for kw in call.keywords:
        if kw.arg is not None:
            out.append((kw.arg, kw.value))
            continue
        v = kw.value
        if isinstance(v, ast.Name):
            binds = [s for s in own_scope(fnode) if isinstance(s, ast.Assign) and len(s.targets) == 1 and isinstance(s.targets[0], ast.Name) and s.targets[0].id == v.id]
            other_stores = [x for x in own_scope(fnode) if (isinstance(x, ast.Name) and x.id == v.id and isinstance(x.ctx, (ast.Store, ast.Del)))
                            or (isinstance(x, (ast.Subscript, ast.Attribute)) and isinstance(x.ctx, (ast.Store, ast.Del)) and isinstance(x.value, ast.Name) and x.value.id == v.id)
                            or (isinstance(x, ast.Call) and isinstance(x.func, ast.Attribute) and isinstance(x.func.value, ast.Name) and x.func.value.id == v.id
                                and x.func.attr in ("update", "pop", "setdefault", "clear", "popitem"))]
            if len(binds) != 1 or len(other_stores) != 1:
                return None
            v = binds[0].value
        if isinstance(v, ast.Dict) and all(isinstance(k, ast.Constant) and isinstance(k.value, str) for k in v.keys):
            out.extend((k.value, x) for k, x in zip(v.keys, v.values))
        elif isinstance(v, ast.Call) and isinstance(v.func, ast.Name) and v.func.id == "dict" and not v.args and all(k.arg is not None for k in v.keywords):
            out.extend((k.arg, k.value) for k in v.keywords)
        else:
            return None
    return out


def bind_call(call, func_node, skip_first=False):
    """{parameter name: argument node} of `call` against the signature of `func_node` (positional, keyword, `**name` with a literal
    dict resolved by explicit_keywords when fnode is given); parameters left to their defaults are absent; None when a starred
    argument prevents the binding."""
    a = func_node.args
    params = [x.arg for x in a.posonlyargs + a.args]
    if skip_first and params:
        params = params[1:]
    if any(isinstance(x, ast.Starred) for x in call.args) or len(call.args) > len(params) and a.vararg is None:
        return None
    out = dict(zip(params, call.args))
    names = set(params) | {x.arg for x in a.kwonlyargs}
    for k in call.keywords:
        if k.arg is None:
            continue  # **kwargs pass-through: may only fill what is not bound otherwise
        if k.arg in out:
            return None
        if k.arg in names:
            out[k.arg] = k.value
    return out
