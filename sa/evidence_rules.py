"""Which rules' failed obligations are, by themselves, positive evidence of a wrong construct.

Policy (DESIGN.md 7.9, enforced mechanically since 7.14): an obligation that fails is reported as a VIOLATION only when the failure
carries positive evidence -- a value that was extracted / folded and differs from the prescribed one, or a dataflow fact (an effect
event, a state dependence, a role that flows to the wrong place).  Everything else that fails -- a statement that is not written the
way the rule reads it -- is *undecided* (exit 2, ANALYSIS-ERROR), never an alarm.

`ctx.ob(..., evidence=True/False)` says it per obligation.  Where a rule says nothing (`evidence=None`), the table below decides by the
rule the obligation belongs to (the origin rule for shared rules: `C20.c/C01.b` is judged as `C01.b`):

VALUE_RULES   every obligation of the rule compares extracted values / folded terms / dataflow facts; "nothing extracted" and "no
              recognised idiom" are still demoted to undecided by report.Ctx.ob.
all others    shape rules: a failure without explicit evidence is undecided.

One line of reason per entry; entries were confirmed by reading the rule, not inferred."""

VALUE_RULES = {
    "C01.a": "finite table of interpret_indexing, folded exhaustively",
    "C01.b": "column-wise symbolic evaluation of coordinate / voxel; terms compared as polynomials",
    "C01.d": "dataflow: float value reaching an integer store / cast without a rounding operand",
    "C01.e": "typed conversions folded over the class family",
    "C02.a": "selection dataflow: bounds re-derived after normalisation",
    "C02.b": "folded subregion terms / flow of the extent into the stored metadata",
    "C03.a": "hidden-state analysis (J1-J3 justifications)",
    "C03.d": "effect analysis: argument mutation events",
    "C04.b": "reaching definitions on the path to the return",
    "C04.f": "reaching definitions of the restored snapshot",
    "C04.g": "path analysis: re-assembly to reusing solve",
    "C04.h": "option -> criterion dataflow",
    "C05.c": "signature coordinates extracted as products",
    "C08.c": "block algebra normal forms (unrecognised idioms are demoted by the matcher)",
    "C08.f": "hidden-state analysis per set-up method",
    "C09.a": "side / negation facts of the accumulated products",
    "C09.b": "matrix algebra normal forms of call_array / inverse_array and their compositions",
    "C09.f": "role flow src / dst",
    "C10.b": "effect analysis: mutation events of correct_array closures",
    "C10.f": "alias analysis: returned array kept on the object",
    "C11.d": "dataflow: which length the parity test / half length read",
    "C14.e": "accumulated kernel sum as a term",
    "C14.g": "argument-count idiom table",
    "C15.a": "quadrature tables folded to numbers",
    "C15.b": "quadrature tables folded to numbers",
    "C15.c": "quadrature tables folded to numbers",
    "C15.d": "functools cache around a function returning ndarrays: object identity of the returned arrays across requests",
    "C16.a": "hidden-state analysis",
    "C16.b": "attribute sets: passed vs read",
    "C16.e": "hidden-state analysis",
    "C16.g": "guard -> store dataflow",
    "C17.a": "effect analysis: argument mutation events",
    "C17.c": "call facts: process-wide generator re-seeded",
    "C18.b": "decoder flag constants",
    "C18.d": "attribute restore / read sets",
    "C18.e": "written vs restored expression per key",
    "C19.b": "shared C02.a / C02.b",
    "C19.c": "folded corner / centre tables",
    "C07.c": "corner tables folded per dimension",
    "C08.a": "string vocabularies: accepted set vs literals compared / documented",
    "C14.a": "parameter routing folded per class and dofs (raised exception, update keywords, offsets)",
    "C14.f": "exponent sets of the polynomial basis, folded per degree",
    "C20.a": "finite tables folded exhaustively",
    "C20.c": "kind-flow facts (letter vs index) and Image.slice folded per dimension",
    "C20.b": "signed permutations of the layout helpers",
}
# value rules that compare algebraic terms: a term that still contains a call of a private helper is outside the rule's vocabulary (report.Ctx.ob)
ALGEBRA_RULES = {"C01.b", "C02.b", "C05.c", "C08.c", "C09.a", "C09.b", "C12.a", "C14.e", "C19.c"}
GENERIC_VALUE_SUFFIXES = {
    ".state": "process-wide state: write events and key coverage",
}


def default_evidence(rule: str) -> bool:
    origin = rule.split("/")[-1]
    if origin in VALUE_RULES:
        return True
    return any(origin.endswith(sfx) for sfx in GENERIC_VALUE_SUFFIXES)
