"""E5 -- alias and mutation summaries.

Per function, each local name (and each `self.attr` pseudo-local) maps to a set of roots:
parameters of the function, FRESH, or GLOBAL.  Copies are FRESH; views and element /
attribute accesses alias.  A mutation event through an alias of parameter p is an effect on p.
Summaries (which parameters may be mutated, which parameters the return value may alias) are
computed to a fixpoint over resolved repository callees.  Flow-insensitive within a function
(may-alias), which is the conservative direction for "does not modify its arguments".
"""
from __future__ import annotations

import ast

from . import cfg as C
from .srcmodel import Cls, Func, norm

FRESH = "<fresh>"
GLOBAL = "<global>"

VIEW_METHODS = {"reshape", "ravel", "view", "squeeze", "transpose", "swapaxes", "T", "flat", "real", "imag", "values", "items", "keys", "get", "pop", "setdefault", "__getitem__"}
COPY_METHODS = {"copy", "astype", "tolist", "flatten", "__deepcopy__", "item", "sum", "mean", "max", "min", "dot", "total_seconds", "lower", "upper", "format"}
MUTATOR_METHODS = {"append", "extend", "insert", "pop", "remove", "sort", "clear", "update", "setdefault", "fill", "put", "resize", "reverse", "popitem", "itemset", "setflags", "partition", "add", "discard",
                   # scipy.sparse: in-place re-organisation of the index / data arrays
                   "sum_duplicates", "sort_indices", "eliminate_zeros", "prune", "setdiag"}
VIEW_FUNCS = {"np.asarray", "np.atleast_1d", "np.atleast_2d", "np.atleast_3d", "np.squeeze", "np.transpose", "np.swapaxes", "np.moveaxis", "np.reshape", "np.ravel", "np.flip", "np.fliplr", "np.flipud",
              "np.asfortranarray", "np.ascontiguousarray", "np.expand_dims", "np.broadcast_to", "np.rollaxis", "skimage.img_as_float", "skimage.img_as_float32", "skimage.img_as_float64",
              "skimage.img_as_ubyte", "skimage.img_as_uint", "skimage.img_as_bool", "skimage.img_as_int", "np.real", "np.diagonal"}
# external functions that write into one of their arguments: name -> argument positions
EXT_MUTATORS = {"cv2.line": [0], "cv2.circle": [0], "cv2.rectangle": [0], "cv2.putText": [0], "cv2.drawContours": [0], "cv2.fillPoly": [0], "cv2.polylines": [0], "np.put": [0], "np.place": [0],
                "np.copyto": [0], "np.fill_diagonal": [0], "np.random.shuffle": [0], "random.shuffle": [0], "np.putmask": [0], "cv2.drawMarker": [0], "cv2.arrowedLine": [0], "cv2.drawKeypoints": [2], "cv2.drawMatches": [6]}
GLOBAL_STATE_CALLS = {"np.random.seed", "random.seed", "np.random.set_state", "numpy.random.seed", "np.random.default_rng().bit_generator.state"}


class Event:
    __slots__ = ("func", "node", "root", "kind", "via")

    def __init__(self, func, node, root, kind, via):
        self.func, self.node, self.root, self.kind, self.via = func, node, root, kind, via

    def __repr__(self):
        return f"<{self.kind} of {self.root} in {self.func.short} L{getattr(self.node, 'lineno', 0)}: {self.via}>"


def base_name(e):
    while isinstance(e, (ast.Subscript, ast.Attribute, ast.Starred)):
        e = e.value
    return e


class Effects:
    def __init__(self, model, max_rounds=6):
        self.model = model
        self.max_rounds = max_rounds
        self.mut = {}  # Func -> set of param names possibly mutated
        self.ret = {}  # Func -> set of param names the return value may alias
        self.glob = {}  # Func -> list of global-state events
        self.events = {}  # Func -> list[Event]
        self.alias = {}
        self._flowcache = {}
        self._special = {}
        self._inprogress = set()
        self._by_method = {}
        for f in model.all_funcs():
            if f.cls is not None:
                self._by_method.setdefault(f.name, []).append(f)
        self._solve()

    # -- per-function alias map ------------------------------------------------------
    def _key(self, e, f):
        """Name key for a local or a self.attr pseudo-local."""
        if isinstance(e, ast.Name):
            return e.id
        if isinstance(e, ast.Attribute) and isinstance(e.value, ast.Name) and f.params and e.value.id == f.params[0] and f.cls is not None:
            return f"self.{e.attr}"
        return None

    def _flow(self, f):
        """(cfg, reaching definitions, stmt -> node id) of f, cached."""
        c = self._flowcache.get(f)
        if c is None:
            g = C.CFG(f.node)
            RD, _ = C.reaching_definitions(g, f.params)
            node_of = {}
            for n in g.nodes:
                if n.stmt is not None:
                    node_of[id(n.stmt)] = n.id
            c = (g, RD, node_of)
            self._flowcache[f] = c
        return c

    def _node_id(self, e, f):
        g, RD, node_of = self._flow(f)
        cur = e
        while cur is not None and cur is not f.node:
            if id(cur) in node_of:
                # an If/For/While statement maps to its head node; expressions in the body have their own nodes
                return node_of[id(cur)]
            cur = getattr(cur, "_parent", None)
        return None

    def _name_roots(self, name, e, f, amap, depth):
        """Flow-sensitive: union over the definitions of `name` reaching the statement that contains e."""
        g, RD, node_of = self._flow(f)
        nid = self._node_id(e, f)
        if nid is None or nid not in RD:
            return None
        defs = [i for nme, i in RD[nid] if nme == name]
        if not defs:
            return None
        out = set()
        for i in defs:
            dn = g.nodes[i]
            if dn.kind == "entry":
                out.add(name)
                continue
            kinds = [k for nme, k in C.defs_of(dn) if nme == name]
            if kinds and all(k == "mutate" for k in kinds):
                continue  # x[...] = v does not rebind x
            key = (f, i, name)
            if key in self._inprogress:
                continue
            self._inprogress.add(key)
            try:
                out |= self._def_roots(dn, name, f, amap, depth + 1)
            finally:
                self._inprogress.discard(key)
        return out or None

    def _def_roots(self, dn, name, f, amap, depth):
        st = dn.stmt
        if dn.kind == "for":
            return self.roots(st.iter, f, amap, depth)
        if dn.kind == "with":
            out = set()
            for it in st.items:
                out |= self.roots(it.context_expr, f, amap, depth)
            return out
        if isinstance(st, ast.Assign):
            out = set()
            for t in st.targets:
                if isinstance(t, (ast.Tuple, ast.List)) and isinstance(st.value, (ast.Tuple, ast.List)) and len(t.elts) == len(st.value.elts):
                    for tt, vv in zip(t.elts, st.value.elts):
                        if isinstance(tt, ast.Name) and tt.id == name:
                            out |= self.roots(vv, f, amap, depth)
                elif any(isinstance(x, ast.Name) and x.id == name for x in ast.walk(t)):
                    out |= self.roots(st.value, f, amap, depth)
            return out or {FRESH}
        if isinstance(st, ast.AnnAssign) and st.value is not None:
            return self.roots(st.value, f, amap, depth)
        if isinstance(st, ast.AugAssign):
            # x += v keeps the object for arrays/lists
            r = self._name_roots(name, st.value, f, amap, depth) if False else None
            return self.roots(st.value, f, amap, depth) | (self._aug_prev(dn, name, f, amap, depth))
        return {FRESH}

    def _aug_prev(self, dn, name, f, amap, depth):
        g, RD, node_of = self._flow(f)
        out = set()
        for nme, i in RD.get(dn.id, ()):
            if nme == name and i != dn.id:
                d2 = g.nodes[i]
                if d2.kind == "entry":
                    out.add(name)
                else:
                    key = (f, i, name)
                    if key in self._inprogress:
                        continue
                    self._inprogress.add(key)
                    try:
                        out |= self._def_roots(d2, name, f, amap, depth + 1)
                    finally:
                        self._inprogress.discard(key)
        return out

    def roots(self, e, f, amap, depth=0):
        """Roots the value of expression e may alias."""
        if depth > 10 or e is None:
            return {FRESH}
        if isinstance(e, ast.Name):
            r = self._name_roots(e.id, e, f, amap, depth)
            if r is not None:
                return r
            if e.id in amap:
                return set(amap[e.id])
            if e.id in f.params:
                return {e.id}
            return {GLOBAL} if e.id in getattr(f.module, "assigns", {}) else {FRESH}
        if isinstance(e, ast.Attribute):
            k = self._key(e, f)
            if k is not None and k in amap:
                return set(amap[k]) | ({f.params[0]} if False else set())
            if e.attr in ("shape", "dtype", "ndim", "size", "space_dim", "series", "scalar"):
                return {FRESH}
            return self.roots(e.value, f, amap, depth + 1)
        if isinstance(e, ast.Subscript):
            return self.roots(e.value, f, amap, depth + 1)
        if isinstance(e, ast.Starred):
            return self.roots(e.value, f, amap, depth + 1)
        if isinstance(e, (ast.Tuple, ast.List, ast.Set)):
            out = set()
            for x in e.elts:
                out |= self.roots(x, f, amap, depth + 1)
            return out or {FRESH}
        if isinstance(e, ast.Dict):
            out = set()
            for x in e.values:
                if x is not None:
                    out |= self.roots(x, f, amap, depth + 1)
            return out or {FRESH}
        if isinstance(e, ast.IfExp):
            return self.roots(e.body, f, amap, depth + 1) | self.roots(e.orelse, f, amap, depth + 1)
        if isinstance(e, ast.BoolOp):
            out = set()
            for x in e.values:
                out |= self.roots(x, f, amap, depth + 1)
            return out
        if isinstance(e, ast.NamedExpr):
            return self.roots(e.value, f, amap, depth + 1)
        if isinstance(e, ast.Call):
            fn = e.func
            d = norm(fn)
            if isinstance(fn, ast.Attribute):
                if fn.attr == "astype" and any(k.arg == "copy" and isinstance(k.value, ast.Constant) and k.value.value is False for k in e.keywords):
                    # astype(..., copy=False) returns the array itself when the dtype already matches
                    return self.roots(fn.value, f, amap, depth + 1) | {FRESH}
                if fn.attr in COPY_METHODS:
                    return {FRESH}
                if fn.attr in VIEW_METHODS:
                    return self.roots(fn.value, f, amap, depth + 1)
            if d in VIEW_FUNCS and e.args:
                return self.roots(e.args[0], f, amap, depth + 1)
            if d == "np.nan_to_num" and e.args and any(k.arg == "copy" and isinstance(k.value, ast.Constant) and k.value.value is False for k in e.keywords):
                return self.roots(e.args[0], f, amap, depth + 1)
            if d == "getattr" and e.args:
                return self.roots(e.args[0], f, amap, depth + 1) | {FRESH}
            if d in ("copy.copy",) and e.args:
                # shallow copy: the container is fresh, its elements are shared
                return self.roots(e.args[0], f, amap, depth + 1) | {FRESH}
            tgt = self.model.resolve_call(e, f)
            if isinstance(tgt, Func) and tgt in self.ret:
                out = set()
                for p, a in self._bind(tgt, e):
                    if p in self.ret[tgt]:
                        out |= self.roots(a, f, amap, depth + 1)
                return out or {FRESH}
            if not isinstance(tgt, (Func, Cls)) and e.args and (
                    (isinstance(fn, ast.Name) and fn.id in f.params)
                    or (isinstance(fn, ast.Attribute) and isinstance(fn.value, ast.Name) and f.params and fn.value.id == f.params[0] and f.cls is not None
                        and self.model.method(f.cls, fn.attr) is None)):
                # a callable supplied by the user (a parameter, or stored on the object): nothing is known about it -- its result may be
                # (a view of) any of its arguments
                out = {FRESH}
                for a in e.args:
                    out |= self.roots(a, f, amap, depth + 1)
                return out
            if isinstance(fn, ast.Attribute) and not isinstance(tgt, (Func, Cls)):
                # unknown method on an object: results of accessor-like calls may alias the receiver
                cands = self._by_method.get(fn.attr, [])
                if cands and any("self" in self.ret.get(c, ()) or (c.params and c.params[0] in self.ret.get(c, ())) for c in cands):
                    return self.roots(fn.value, f, amap, depth + 1) | {FRESH}
            return {FRESH}
        return {FRESH}

    @staticmethod
    def _in_comprehension(n):
        cur = n
        while cur is not None:
            cur = getattr(cur, "_parent", None)
            if isinstance(cur, ast.comprehension):
                return True
            if isinstance(cur, ast.stmt):
                return False
        return False

    def _bind(self, callee: Func, call: ast.Call):
        """(param name, argument expr) pairs of a call (self bound for methods called on an object)."""
        params = list(callee.params)
        a = callee.node.args
        pairs = []
        pos = [x.arg for x in a.posonlyargs + a.args]
        is_method = callee.cls is not None and pos and pos[0] in ("self", "cls")
        args = list(call.args)
        if is_method:
            recv = call.func.value if isinstance(call.func, ast.Attribute) else None
            # constructor call Cls(...) binds a fresh self
            if recv is not None and not (isinstance(recv, ast.Call) and norm(recv.func) == "super"):
                pairs.append((pos[0], recv))
            pos = pos[1:]
        for p, x in zip(pos, args):
            if isinstance(x, ast.Starred):
                break
            pairs.append((p, x))
        names = set(pos) | {x.arg for x in a.kwonlyargs}
        for k in call.keywords:
            if k.arg is None:
                if a.kwarg is not None:
                    pairs.append((a.kwarg.arg, k.value))
                continue
            if k.arg in names:
                pairs.append((k.arg, k.value))
            elif a.kwarg is not None:
                pairs.append((a.kwarg.arg, k.value))
        return pairs

    @staticmethod
    def _dead_statements(node, fixed):
        dead = set()
        for st in ast.walk(node):
            if isinstance(st, ast.If):
                t, neg = st.test, False
                if isinstance(t, ast.UnaryOp) and isinstance(t.op, ast.Not):
                    t, neg = t.operand, True
                if isinstance(t, ast.Name) and t.id in fixed:
                    val = bool(fixed[t.id]) != neg
                    for s in (st.orelse if val else st.body):
                        for x in ast.walk(s):
                            dead.add(id(x))
        return dead

    _IMMUTABLE_ANN = {"str", "int", "float", "bool", "None", "Optional", "Union", "Literal", "complex", "bytes", "tuple"}

    def immutable_param(self, f, p):
        """True if parameter p is annotated (or defaulted) as an immutable scalar/str: `p += v` rebinds."""
        a = f.node.args
        allp = a.posonlyargs + a.args + a.kwonlyargs
        arg = next((x for x in allp if x.arg == p), None)
        if arg is None:
            return False
        if arg.annotation is not None:
            names = {x.id for x in ast.walk(arg.annotation) if isinstance(x, ast.Name)} | {x.attr for x in ast.walk(arg.annotation) if isinstance(x, ast.Attribute)}
            consts = {x.value for x in ast.walk(arg.annotation) if isinstance(x, ast.Constant) and isinstance(x.value, str)}
            if isinstance(arg.annotation, ast.Constant) and isinstance(arg.annotation.value, str):
                names |= set(arg.annotation.value.replace("[", " ").replace("]", " ").replace(",", " ").replace("|", " ").split())
            return bool(names) and names <= self._IMMUTABLE_ANN
        pos = a.posonlyargs + a.args
        if arg in pos:
            i = pos.index(arg) - (len(pos) - len(a.defaults))
            d = a.defaults[i] if 0 <= i < len(a.defaults) else None
        else:
            d = a.kw_defaults[a.kwonlyargs.index(arg)]
        return isinstance(d, ast.Constant) and isinstance(d.value, (int, float, str, bool)) and d.value is not None

    def _analyse(self, f: Func, fixed=None):
        node = f.node
        dead = self._dead_statements(node, fixed) if fixed else set()
        kwname = f.node.args.kwarg.arg if f.node.args.kwarg is not None else None
        amap = {}
        # iterate assignments to a may-alias fixpoint
        assigns = []
        for st in ast.walk(node):
            if isinstance(st, ast.Assign):
                for t in st.targets:
                    assigns.append((t, st.value))
            elif isinstance(st, ast.AnnAssign) and st.value is not None:
                assigns.append((st.target, st.value))
            elif isinstance(st, (ast.For, ast.AsyncFor)):
                assigns.append((st.target, st.iter))
            elif isinstance(st, ast.With):
                for it in st.items:
                    if it.optional_vars is not None:
                        assigns.append((it.optional_vars, it.context_expr))
            elif isinstance(st, ast.comprehension):
                assigns.append((st.target, st.iter))
            elif isinstance(st, ast.NamedExpr):
                assigns.append((st.target, st.value))
        for _ in range(6):
            changed = False
            for t, v in assigns:
                tg = [(t, v)]
                if isinstance(t, (ast.Tuple, ast.List)):
                    if isinstance(v, (ast.Tuple, ast.List)) and len(v.elts) == len(t.elts):
                        tg = list(zip(t.elts, v.elts))
                    else:
                        tg = [(x, v) for x in t.elts]
                for tt, vv in tg:
                    k = self._key(tt, f)
                    if k is None:
                        continue
                    if isinstance(tt, ast.Name) and not getattr(vv, "_is_comp_iter", False) and self._node_id(tt, f) is not None and not self._in_comprehension(tt):
                        continue  # ordinary locals are resolved flow-sensitively
                    r = self.roots(vv, f, amap)
                    old = amap.get(k, set())
                    new = old | r
                    if k in f.params and not old:
                        new |= {k}  # the parameter's own value may still flow
                    if new != old:
                        amap[k] = new
                        changed = True
            if not changed:
                break
        self.alias[f] = amap
        events, gl = [], []
        plist = set(f.params)

        def effect(expr, kind, node_, via):
            # operations on the **kwargs dict itself only touch the callee's private dict
            if kwname is not None and isinstance(expr, ast.Name) and expr.id == kwname and kind in ("store", "mutator-method", "del", "setattr"):
                return
            for r in self.roots(expr, f, amap):
                if r in plist or r == GLOBAL:
                    if kind == "augassign" and r in plist and self.immutable_param(f, r):
                        continue
                    events.append(Event(f, node_, r, kind, via))

        for st in ast.walk(node):
            if isinstance(st, (ast.FunctionDef, ast.AsyncFunctionDef)) and st is not node:
                continue
            if id(st) in dead:
                continue
            if isinstance(st, ast.Assign):
                for t in st.targets:
                    for tt in (t.elts if isinstance(t, (ast.Tuple, ast.List)) else [t]):
                        if isinstance(tt, (ast.Subscript, ast.Attribute)):
                            # store through an object: mutation of what the *container* aliases
                            effect(tt.value, "store", st, norm(st)[:80])
            elif isinstance(st, ast.AugAssign):
                t = st.target
                if isinstance(t, (ast.Subscript, ast.Attribute)):
                    effect(t.value, "store", st, norm(st)[:80])
                else:
                    effect(t, "augassign", st, norm(st)[:80])
            elif isinstance(st, ast.Delete):
                for t in st.targets:
                    if isinstance(t, (ast.Subscript, ast.Attribute)):
                        effect(t.value, "del", st, norm(st)[:80])
            elif isinstance(st, ast.Call):
                fn = st.func
                d = norm(fn)
                if d in GLOBAL_STATE_CALLS:
                    gl.append(Event(f, st, GLOBAL, "global-state", d))
                if d in EXT_MUTATORS:
                    for i in EXT_MUTATORS[d]:
                        if i < len(st.args):
                            effect(st.args[i], "ext-mutator", st, norm(st)[:80])
                for k in st.keywords:
                    if k.arg == "out":
                        effect(k.value, "out=", st, norm(st)[:80])
                if d == "setattr" and st.args:
                    effect(st.args[0], "setattr", st, norm(st)[:80])
                if d in ("np.nan_to_num", "np.clip", "np.round", "np.around") and st.args and any(k.arg == "copy" and isinstance(k.value, ast.Constant) and k.value.value is False for k in st.keywords):
                    # copy=False: the replacement happens in the array that was passed
                    effect(st.args[0], "store", st, f"{d}(..., copy=False) works in place")
                tgt = self.model.resolve_call(st, f)
                if isinstance(tgt, Cls):
                    tgt = self.model.method(tgt, "__init__")
                    if tgt is not None:
                        kwp = tgt.node.args.kwarg.arg if tgt.node.args.kwarg is not None else None
                        for p, a in self._bind(tgt, st):
                            if p == kwp:
                                continue
                            if p in self.mut.get(tgt, ()) and p not in ("self",):
                                effect(a, "callee", st, f"{tgt.short} mutates its parameter `{p}`")
                elif isinstance(tgt, Func):
                    kwp = tgt.node.args.kwarg.arg if tgt.node.args.kwarg is not None else None
                    summ = self._summary_for_call(tgt, st, fixed)
                    for p, a in self._bind(tgt, st):
                        if p == kwp:
                            continue  # values reached through **kwargs: key-dependent, handled by the shared-metadata rule
                        if p in summ:
                            effect(a, "callee", st, f"{tgt.short} mutates its parameter `{p}`")
                    gl += [Event(f, st, GLOBAL, "global-state", f"via {tgt.short}") for _ in self.glob.get(tgt, [])[:1]]
                elif isinstance(fn, ast.Attribute):
                    if fn.attr in MUTATOR_METHODS:
                        recv_is_np = isinstance(fn.value, ast.Name) and fn.value.id in ("np", "plt", "cv2", "warnings", "logger", "os", "json")
                        if not recv_is_np:
                            effect(fn.value, "mutator-method", st, norm(st)[:80])
                    else:
                        total = self._by_method.get(fn.attr, [])
                        cands = [c for c in total if c.params and c.params[0] in self._summary_for_call(c, st, fixed)]
                        if cands and len(cands) == len(total) and fn.attr not in COPY_METHODS | VIEW_METHODS:
                            effect(fn.value, "callee", st, f".{fn.attr}() mutates its receiver in every repository class that defines it")
                        # arguments of a method that cannot be resolved (the receiver is an attribute holding some object): if the classes that
                        # define a method of this name all live in one package and one of them modifies the parameter the argument is bound to,
                        # the call may modify the argument (dynamic dispatch over a small family, e.g. the balance classes behind apply_balance)
                        if total and len(total) <= 8 and len({c.module.name.rsplit(".", 1)[0] for c in total}) == 1 and not isinstance(self.model.resolve_call(st, f), (Func, Cls)):
                            for c in total:
                                summ_c = self.mut.get(c, set())
                                cparams = c.params[1:] if c.cls is not None else c.params
                                for i_, a in enumerate(st.args):
                                    if i_ < len(cparams) and cparams[i_] in summ_c:
                                        effect(a, "callee", st, f"{c.short} (one of the {len(total)} definitions of .{fn.attr}) mutates its parameter `{cparams[i_]}`")
        # return aliasing
        ret = set()
        for st in ast.walk(node):
            if isinstance(st, ast.Return) and st.value is not None:
                ret |= {r for r in self.roots(st.value, f, amap) if r in plist}
        return {e.root for e in events if e.root in plist}, ret, events, gl

    def _solve(self):
        funcs = list(self.model.all_funcs())
        for f in funcs:
            self.mut[f], self.ret[f], self.events[f], self.glob[f] = set(), set(), [], []
        for _ in range(self.max_rounds):
            changed = False
            for f in funcs:
                try:
                    m, r, ev, gl = self._analyse(f)
                except RecursionError:
                    continue
                if m != self.mut[f] or r != self.ret[f] or len(gl) != len(self.glob[f]):
                    changed = True
                self.mut[f], self.ret[f], self.events[f], self.glob[f] = m, r, ev, gl
            if not changed:
                break

    # -- queries ----------------------------------------------------------------------
    def mutated(self, f: Func, exclude=()):
        return {p for p in self.mut.get(f, ()) if p not in exclude}

    def events_on(self, f: Func, param):
        return [e for e in self.events.get(f, []) if e.root == param]

    def _summary_for_call(self, callee, call, caller_fixed=None):
        """Mutated-parameter set of callee, specialised on the boolean arguments of this call that are constants or parameters the
        caller itself is analysed with a fixed value for (a flag handed on to an extracted helper)."""
        fixed = {}
        try:
            pairs = self._bind(callee, call)
        except Exception:
            pairs = [(k.arg, k.value) for k in call.keywords if k.arg]
        for pn, a in pairs:
            neg = False
            while isinstance(a, ast.UnaryOp) and isinstance(a.op, ast.Not):
                a, neg = a.operand, not neg
            if isinstance(a, ast.Constant) and isinstance(a.value, bool):
                fixed[pn] = a.value != neg
            elif isinstance(a, ast.Name) and caller_fixed and a.id in caller_fixed and isinstance(caller_fixed[a.id], bool):
                fixed[pn] = caller_fixed[a.id] != neg
        fixed = {k: v for k, v in fixed.items() if k in callee.params}
        if not fixed:
            return self.mut.get(callee, set())
        key = (callee, tuple(sorted(fixed.items())))
        if key not in self._special:
            self._special[key] = self.mut.get(callee, set())  # recursion guard
            try:
                m, r, ev, gl = self._analyse(callee, fixed)
                self._special[key] = m
            except RecursionError:
                pass
        return self._special[key]

    def analyse_with(self, f: Func, fixed):
        """Events of f with some boolean parameters fixed (dead branches pruned)."""
        m, r, ev, gl = self._analyse(f, fixed)
        return ev, gl
