"""E1 -- the resolved program: modules, the darsia.* namespace, classes, MRO, callees."""
from __future__ import annotations

import ast
import hashlib
import os

from .report import REPO, AnalysisError

SRC = os.path.join(REPO, "src")
PKG = "darsia"


class Func:
    """A function or method definition."""

    def __init__(self, node, module, cls=None):
        self.node = node
        self.module = module
        self.cls = cls
        self.name = node.name

    @property
    def qname(self):
        if self.cls is not None:
            return f"{self.module.name}.{self.cls.name}.{self.name}"
        return f"{self.module.name}.{self.name}"

    @property
    def short(self):
        return f"{self.cls.name}.{self.name}" if self.cls is not None else self.name

    @property
    def params(self):
        a = self.node.args
        return [x.arg for x in a.posonlyargs + a.args] + (
            [a.vararg.arg] if a.vararg else []
        ) + [x.arg for x in a.kwonlyargs] + ([a.kwarg.arg] if a.kwarg else [])

    def __repr__(self):
        return f"<Func {self.qname}>"


class Cls:
    def __init__(self, node, module):
        self.node = node
        self.module = module
        self.name = node.name
        self.methods: dict[str, Func] = {}
        self.bases: list = []  # resolved Cls or dotted external name
        self.patched: dict[str, Func] = {}

    @property
    def qname(self):
        return f"{self.module.name}.{self.name}"

    def __repr__(self):
        return f"<Cls {self.qname}>"


from .normalize import normalize  # noqa: E402


class Module:
    def __init__(self, name, path, tree, source):
        self.name = name
        self.path = path
        self.rel = os.path.relpath(path, REPO)
        self.tree = tree
        self.source = source
        self.digest = hashlib.sha256(source.encode()).hexdigest()
        self.funcs: dict[str, Func] = {}
        self.classes: dict[str, Cls] = {}
        self.imports: dict[str, str] = {}  # local alias -> dotted target
        self.star: list[str] = []  # modules star-imported
        self.assigns: dict[str, ast.AST] = {}  # module-level simple assignments


def _annotate(tree, rel):
    for parent in ast.walk(tree):
        parent._file = rel
        for child in ast.iter_child_nodes(parent):
            child._parent = parent


def reference_func(real: "Func", class_source: str):
    """A Func whose body is parsed from `class_source` (a class statement holding one method of the same name) but which resolves
    names like `real` does (same module, same class): a documented construction folded / analysed in place of the repository's code."""
    tree = ast.parse(class_source)
    normalize(tree)
    _annotate(tree, real.module.rel)
    cls = next(c for c in tree.body if isinstance(c, ast.ClassDef))
    node = next(f for f in cls.body if isinstance(f, ast.FunctionDef) and f.name == real.name)
    return Func(node, real.module, real.cls)


class Model:
    def __init__(self, src=SRC):
        self.src = src
        self.modules: dict[str, Module] = {}
        self._load()
        self._link()

    # -- loading -----------------------------------------------------------------
    def _load(self):
        root = os.path.join(self.src, PKG)
        if not os.path.isdir(root):
            raise AnalysisError(f"package directory {root} not found")
        for dp, dn, fn in os.walk(root):
            dn.sort()
            for f in sorted(fn):
                if not f.endswith(".py"):
                    continue
                path = os.path.join(dp, f)
                rel = os.path.relpath(path, self.src)[:-3].replace(os.sep, ".")
                if rel.endswith(".__init__"):
                    rel = rel[: -len(".__init__")]
                with open(path, encoding="utf-8") as fh:
                    source = fh.read()
                try:
                    tree = ast.parse(source, filename=path)
                except SyntaxError as e:
                    raise AnalysisError(f"cannot parse {path}: {e}")
                normalize(tree)
                m = Module(rel, path, tree, source)
                _annotate(tree, m.rel)
                self.modules[rel] = m
                self._index(m)

    def _index(self, m: Module):
        for st in m.tree.body:
            self._index_stmt(m, st)

    def _index_stmt(self, m, st):
        if isinstance(st, (ast.FunctionDef, ast.AsyncFunctionDef)):
            m.funcs[st.name] = Func(st, m)
        elif isinstance(st, ast.ClassDef):
            c = Cls(st, m)
            for b in st.body:
                if isinstance(b, (ast.FunctionDef, ast.AsyncFunctionDef)):
                    c.methods[b.name] = Func(b, m, c)
            m.classes[st.name] = c
        elif isinstance(st, ast.Import):
            for a in st.names:
                m.imports[a.asname or a.name.split(".")[0]] = (
                    a.name if a.asname else a.name.split(".")[0]
                )
        elif isinstance(st, ast.ImportFrom):
            mod = st.module or ""
            if st.level:
                base = m.name.split(".")
                base = base[: len(base) - st.level + (1 if m.path.endswith("__init__.py") else 0)]
                mod = ".".join(base + ([mod] if mod else []))
            for a in st.names:
                if a.name == "*":
                    m.star.append(mod)
                else:
                    m.imports[a.asname or a.name] = f"{mod}.{a.name}"
        elif isinstance(st, ast.Assign) and len(st.targets) == 1 and isinstance(st.targets[0], ast.Name):
            m.assigns[st.targets[0].id] = st.value
        elif isinstance(st, ast.AnnAssign) and isinstance(st.target, ast.Name) and st.value is not None:
            m.assigns[st.target.id] = st.value
        elif isinstance(st, (ast.If, ast.Try)):
            for sub in ast.iter_child_nodes(st):
                if isinstance(sub, ast.stmt):
                    self._index_stmt(m, sub)
                elif isinstance(sub, ast.ExceptHandler):
                    for s2 in sub.body:
                        self._index_stmt(m, s2)

    # -- linking -----------------------------------------------------------------
    def _link(self):
        # the darsia namespace: union of star-imported module top-levels, in order
        self.ns: dict[str, object] = {}
        root = self.modules.get(PKG)
        if root is None:
            raise AnalysisError("darsia/__init__.py not found")
        for st in root.tree.body:
            if isinstance(st, ast.ImportFrom) and st.names[0].name == "*":
                sub = self.modules.get(st.module)
                if sub is None:
                    continue
                allnames = None
                if "__all__" in sub.assigns:
                    try:
                        allnames = set(ast.literal_eval(sub.assigns["__all__"]))
                    except Exception:
                        allnames = None
                for n, f in sub.funcs.items():
                    if (allnames is None and not n.startswith("_")) or (allnames and n in allnames):
                        self.ns[n] = f
                for n, c in sub.classes.items():
                    if (allnames is None and not n.startswith("_")) or (allnames and n in allnames):
                        self.ns[n] = c
                for n in sub.assigns:
                    if not n.startswith("_") and n not in self.ns:
                        self.ns[n] = ("assign", sub, n)
            elif isinstance(st, ast.ImportFrom):
                for a in st.names:
                    tgt = f"{st.module}.{a.name}"
                    if tgt in self.modules:
                        self.ns[a.asname or a.name] = self.modules[tgt]
        # class bases
        for m in self.modules.values():
            for c in m.classes.values():
                for b in c.node.bases:
                    r = self.resolve_expr(b, m)
                    c.bases.append(r if isinstance(r, Cls) else self.dotted(b))
        # monkey patches at module level: Cls.attr = func
        for m in self.modules.values():
            for st in m.tree.body:
                if (
                    isinstance(st, ast.Assign)
                    and len(st.targets) == 1
                    and isinstance(st.targets[0], ast.Attribute)
                    and isinstance(st.targets[0].value, ast.Name)
                    and isinstance(st.value, ast.Name)
                ):
                    c = m.classes.get(st.targets[0].value.id)
                    f = m.funcs.get(st.value.id)
                    if c is not None and f is not None:
                        c.patched[st.targets[0].attr] = f

    # -- queries -----------------------------------------------------------------
    def digest(self, modname):
        m = self.modules.get(modname)
        return m.digest if m else None

    def mod(self, name) -> Module:
        m = self.modules.get(name)
        if m is None:
            raise AnalysisError(f"module {name} not found in /repo/src")
        return m

    def func(self, modname, fname) -> Func:
        m = self.mod(modname)
        if "." in fname:
            cn, mn = fname.split(".", 1)
            c = m.classes.get(cn)
            if c is None:
                raise AnalysisError(f"class {modname}.{cn} not found")
            f = self.method(c, mn)
            if f is None:
                raise AnalysisError(f"method {modname}.{fname} not found")
            return f
        f = m.funcs.get(fname)
        if f is None:
            raise AnalysisError(f"function {modname}.{fname} not found")
        return f

    def cls(self, modname, cname) -> Cls:
        c = self.mod(modname).classes.get(cname)
        if c is None:
            raise AnalysisError(f"class {modname}.{cname} not found")
        return c

    @staticmethod
    def dotted(node):
        parts = []
        while isinstance(node, ast.Attribute):
            parts.append(node.attr)
            node = node.value
        if isinstance(node, ast.Name):
            parts.append(node.id)
            return ".".join(reversed(parts))
        return None

    def resolve_name(self, name, module: Module):
        """Resolve a bare name in a module to Func / Cls / Module / external dotted str."""
        if name in module.funcs:
            return module.funcs[name]
        if name in module.classes:
            return module.classes[name]
        if name in module.imports:
            tgt = module.imports[name]
            return self.resolve_dotted(tgt)
        for s in module.star:
            sub = self.modules.get(s)
            if sub is not None:
                if name in sub.funcs:
                    return sub.funcs[name]
                if name in sub.classes:
                    return sub.classes[name]
        return None

    def resolve_dotted(self, dotted):
        """darsia.x.y.Z or numpy.foo -> object or the string itself (external)."""
        if dotted in self.modules:
            return self.modules[dotted]
        parts = dotted.split(".")
        if parts[0] != PKG:
            return dotted
        # longest module prefix
        for i in range(len(parts), 0, -1):
            mn = ".".join(parts[:i])
            if mn in self.modules:
                cur = self.modules[mn]
                rest = parts[i:]
                break
        else:
            return dotted
        for j, p in enumerate(rest):
            if isinstance(cur, Module):
                if cur.name == PKG and p in self.ns:
                    cur = self.ns[p]
                elif p in cur.funcs:
                    cur = cur.funcs[p]
                elif p in cur.classes:
                    cur = cur.classes[p]
                elif p in cur.imports:
                    cur = self.resolve_dotted(cur.imports[p])
                else:
                    return dotted
            elif isinstance(cur, Cls):
                f = self.method(cur, p)
                if f is None:
                    return dotted
                cur = f
            else:
                return dotted
        return cur

    def resolve_expr(self, node, module: Module):
        """Resolve Name / Attribute chains like da.Foo, darsia.utils.quadrature.gauss."""
        d = self.dotted(node)
        if d is None:
            return None
        parts = d.split(".")
        head = self.resolve_name(parts[0], module)
        if head is None:
            return None
        if isinstance(head, str):
            return ".".join([head] + parts[1:])
        cur = head
        for p in parts[1:]:
            if isinstance(cur, Module):
                if cur.name == PKG and p in self.ns:
                    cur = self.ns[p]
                elif p in cur.funcs:
                    cur = cur.funcs[p]
                elif p in cur.classes:
                    cur = cur.classes[p]
                elif p in cur.imports:
                    cur = self.resolve_dotted(cur.imports[p])
                elif f"{cur.name}.{p}" in self.modules:
                    cur = self.modules[f"{cur.name}.{p}"]
                else:
                    return None
            elif isinstance(cur, Cls):
                f = self.method(cur, p)
                if f is None:
                    return None
                cur = f
            elif isinstance(cur, str):
                cur = f"{cur}.{p}"
            else:
                return None
        return cur

    # -- classes -----------------------------------------------------------------
    def mro(self, c: Cls) -> list[Cls]:
        out, seen = [], set()

        def go(k):
            if k.qname in seen:
                return
            seen.add(k.qname)
            out.append(k)
            for b in k.bases:
                if isinstance(b, Cls):
                    go(b)

        go(c)
        return out

    def method(self, c: Cls, name) -> Func | None:
        for k in self.mro(c):
            if name in k.methods:
                return k.methods[name]
            if name in k.patched:
                return k.patched[name]
        return None

    def subclasses(self, c: Cls, strict=False) -> list[Cls]:
        out = []
        for m in self.modules.values():
            for k in m.classes.values():
                if c in self.mro(k) and (not strict or k is not c):
                    out.append(k)
        return out

    def all_funcs(self):
        for m in self.modules.values():
            for f in m.funcs.values():
                yield f
            for c in m.classes.values():
                for f in c.methods.values():
                    yield f

    def resolve_call(self, call: ast.Call, func: Func, self_cls: Cls | None = None):
        """Return Func / Cls (constructor) / external dotted str / None for a call site.

        `self_cls` is the dynamic class used to resolve self.m() (defaults to the
        defining class)."""
        f = call.func
        mod = func.module
        cls = self_cls or func.cls
        if isinstance(f, ast.Attribute) and isinstance(f.value, ast.Name) and f.value.id == "self" and cls:
            return self.method(cls, f.attr)
        if (
            isinstance(f, ast.Attribute)
            and isinstance(f.value, ast.Call)
            and isinstance(f.value.func, ast.Name)
            and f.value.func.id == "super"
            and func.cls is not None
        ):
            chain = self.mro(cls) if cls else []
            # methods after the defining class in the MRO
            try:
                i = chain.index(func.cls)
            except ValueError:
                i = 0
            for k in chain[i + 1:]:
                if f.attr in k.methods:
                    return k.methods[f.attr]
            return None
        r = self.resolve_expr(f, mod)
        return r


def unparse(node):
    try:
        return ast.unparse(node)
    except Exception:
        return "<?>"


def norm(node):
    """Normalised statement/expression text for keys (no line numbers, no layout)."""
    return " ".join(unparse(node).split())


def enclosing_function(node):
    while node is not None:
        node = getattr(node, "_parent", None)
        if isinstance(node, (ast.FunctionDef, ast.AsyncFunctionDef)):
            return node
    return None
