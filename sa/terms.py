"""Normal form of the symbolic terms produced by `fold.Folder(symbolic=True)`.

Two terms with the same normal form denote the same value for every input; the converse does not hold (the normal form knows a
fixed, small set of identities).  Identities used -- each is an identity of Python / numpy values, not of this repository:

* `a + b` is flattened over nested sums, integer zeros are dropped and the operands are ordered; the same for `*` with ones;
* Fortran-order flattening has one spelling: np.ravel(x, 'F'), np.ravel(x, order='F'), x.ravel('F'), x.ravel(order='F'),
  x.flatten('F'), x.flatten(order='F');
* Fortran-order reshaping has one spelling: x.reshape(s, order='F'), np.reshape(x, s, order='F');
* an index that folded completely is written canonically (fold.canon_index);
* np.array / np.asarray of a value that is already an array term is that term.
"""
from __future__ import annotations

from fractions import Fraction

from .fold import Arr, Obj, Opaque, Sym, TypeTag, canon_index, Refuse


# methods a rule declares to act row by row on a 2-d argument (set by the rule around its comparisons): m(np.array([r0, r1]))[k] is m(r_k)
ROWWISE: set = set()


def nf(v):
    if isinstance(v, Sym):
        return _sym(v)
    if isinstance(v, Opaque):
        return v.label or f"<{v.tag}>"
    if isinstance(v, TypeTag):
        return v.name
    if isinstance(v, Arr):
        return nf(v.data)
    if isinstance(v, Obj):
        return f"<{v.label}>"
    if isinstance(v, list):
        return "[" + ", ".join(nf(x) for x in v) + "]"
    if isinstance(v, tuple):
        return "(" + ", ".join(nf(x) for x in v) + ("," if len(v) == 1 else "") + ")"
    if isinstance(v, dict):
        return "{" + ", ".join(f"{nf(k)}: {nf(x)}" for k, x in sorted(v.items(), key=lambda kv: repr(kv[0]))) + "}"
    if isinstance(v, slice):
        if all(x is None or (isinstance(x, int) and not isinstance(x, bool)) for x in (v.start, v.stop, v.step)):
            return canon_index(v)
        return f"{'' if v.start in (None, 0) else nf(v.start)}:{'' if v.stop is None else nf(v.stop)}" + ("" if v.step in (None, 1) else f":{nf(v.step)}")
    if v is Ellipsis:
        return "..."
    if isinstance(v, Fraction) and v.denominator == 1:
        return str(v.numerator)
    return repr(v)


def _index(ix):
    kind, val = ix

    def one(x):
        if isinstance(x, (Sym, Opaque, Arr, list)):
            return nf(x)
        return canon_index(x)
    if isinstance(val, tuple):
        el = list(val)
        while el and (el[-1] is Ellipsis or (isinstance(el[-1], slice) and el[-1] == slice(None) and not any(e is Ellipsis for e in el))):
            el.pop()
        return ", ".join(one(x) for x in el) if el else "..."
    return one(val)


def _order(v: Sym, pos: int):
    """The order argument of a ravel / flatten / reshape call: positional at `pos` or keyword; 'C' when absent."""
    if "order" in v.kw:
        return v.kw["order"]
    if len(v.args) > pos:
        return v.args[pos]
    return "C"


def _flat(x, order):
    return f"flat{order}({nf(x)})" if isinstance(order, str) else None


def _sym(v: Sym):
    fn = v.fn
    if isinstance(v.recv, Opaque) and v.recv.tag == "callable" and v.attr and v.attr != "[]" and not v.attr.startswith("."):
        # a function of a module / class (np.ravel): not a method of a value
        v = Sym(f"{v.recv.label}.{v.attr}", v.args, v.kw)
        fn = v.fn
    if v.attr == "[]" and v.recv is not None:
        if ROWWISE and v.index is not None and v.index[0] == "value" and isinstance(v.index[1], int) and not isinstance(v.index[1], bool) \
                and isinstance(v.recv, Sym) and v.recv.attr in ROWWISE and len(v.recv.args) == 1 and not v.recv.kw:
            rows = v.recv.args[0]
            if isinstance(rows, Sym) and rows.fn in ("np.array", "np.asarray", "np.vstack", "np.stack") and rows.args and isinstance(rows.args[0], (list, tuple)) and not rows.kw:
                rows = rows.args[0]
            elif isinstance(rows, Sym) and isinstance(rows.recv, Opaque) and rows.recv.tag == "callable" and rows.attr in ("array", "asarray", "vstack", "stack") \
                    and rows.args and isinstance(rows.args[0], (list, tuple)) and not rows.kw:
                rows = rows.args[0]
            if isinstance(rows, Arr):
                rows = rows.data
            if isinstance(rows, (list, tuple)) and 0 <= v.index[1] < len(rows) and isinstance(rows[v.index[1]], (list, tuple, Sym, Opaque)):
                return nf(Sym(v.recv.fn, [rows[v.index[1]]], recv=v.recv.recv, attr=v.recv.attr))
        if v.index is not None:
            try:
                return f"{nf(v.recv)}[{_index(v.index)}]"
            except Refuse:
                pass
        base = v.recv.label if isinstance(v.recv, (Opaque, Obj)) else repr(v.recv)
        return f"{nf(v.recv)}[{fn[len(base) + 1:-1] if fn.startswith(base + '[') else fn}]"
    if v.attr is not None and v.attr.startswith(".") and v.recv is not None:
        return f"{nf(v.recv)}{v.attr}"
    if v.recv is not None and v.attr is not None:
        a = v.attr
        if a in ("ravel", "flatten") and len(v.args) <= 1 and set(v.kw) <= {"order"}:
            r = _flat(v.recv, _order(v, 0))
            if r:
                return r
        if a == "reshape" and len(v.args) == 1 and set(v.kw) <= {"order"} and isinstance(_order(v, 1), str):
            return f"reshape{_order(v, 1)}({nf(v.recv)}, {nf(v.args[0])})"
        if a == "copy" and not v.args and not v.kw:
            return f"copy({nf(v.recv)})"
        return f"{nf(v.recv)}.{a}({_args(v)})"
    if fn == "np.ravel" and 1 <= len(v.args) <= 2 and set(v.kw) <= {"order"}:
        r = _flat(v.args[0], _order(v, 1))
        if r:
            return r
    if fn == "np.reshape" and len(v.args) == 2 and set(v.kw) <= {"order"} and isinstance(_order(v, 2), str):
        return f"reshape{_order(v, 2)}({nf(v.args[0])}, {nf(v.args[1])})"
    if fn in ("np.array", "np.asarray") and len(v.args) == 1 and not v.kw and isinstance(v.args[0], (Sym, Opaque)):
        return nf(v.args[0])
    if fn in ("+", "*") and len(v.args) >= 2:
        neutral = 0 if fn == "+" else 1
        parts = []

        def flat(t):
            if isinstance(t, Sym) and t.fn == fn and t.recv is None:
                for x in t.args:
                    flat(x)
            elif isinstance(t, Sym) and t.fn in ("np.float64", "float", "np.float32", "int", "np.int64") and len(t.args) == 1 and not t.kw \
                    and isinstance(t.args[0], (int, Fraction)) and not isinstance(t.args[0], bool) and t.args[0] == neutral:
                pass   # a typed spelling of the neutral element
            elif not (isinstance(t, (int, Fraction)) and not isinstance(t, bool) and t == neutral):
                parts.append(nf(t))
        flat(v)
        if not parts:
            return str(neutral)
        if len(parts) == 1:
            return parts[0]
        return f"({f' {fn} '.join(sorted(parts))})"
    if fn in ("np.logical_and", "&", "np.logical_or", "|") and len(v.args) == 2 and not v.kw:
        # conjunction / disjunction of boolean arrays: associative and commutative
        kind = "and" if fn in ("np.logical_and", "&") else "or"
        same = ("np.logical_and", "&") if kind == "and" else ("np.logical_or", "|")
        parts = []

        def flat(t):
            if isinstance(t, Sym) and t.fn in same and len(t.args) == 2 and not t.kw and (t.recv is None or (isinstance(t.recv, Opaque) and t.recv.tag == "callable")):
                for x in t.args:
                    flat(x)
            else:
                parts.append(nf(t))
        flat(v)
        return f"{kind}(" + ", ".join(sorted(parts)) + ")"
    if fn == "neg" and len(v.args) == 1:
        return f"-({nf(v.args[0])})"
    if fn == "upd" and len(v.args) == 4:
        return f"upd({nf(v.args[0])}, {_index(('value', v.args[1]))}, {v.args[2]}, {nf(v.args[3])})"
    if fn in ("-", "+") and len(v.args) == 2 and not v.kw:
        # x -/+ (row d of the identity matrix) is x with entry d decreased / increased by one (defined only where the lengths agree)
        e = v.args[1]
        if isinstance(e, Sym) and e.attr == "[]" and e.index is not None and e.index[0] == "value" and isinstance(e.index[1], int) and not isinstance(e.index[1], bool) \
                and isinstance(e.recv, Sym) and nf(e.recv).startswith(("np.eye(", "np.identity(")):
            return f"upd({nf(v.args[0])}, {e.index[1]}, {fn}, 1)"
    if fn in ("-", "/", "//", "**", "@", "%", "<", "<=", "==", "!=") and len(v.args) == 2 and not v.kw:
        return f"({nf(v.args[0])} {fn} {nf(v.args[1])})"
    return f"{fn}({_args(v)})"


def _args(v: Sym):
    return ", ".join([nf(a) for a in v.args] + [f"{k}={nf(x)}" for k, x in sorted(v.kw.items())])
