"""Checker self-validation (thorough tier).

For one property, on scratch copies of the *current* /repo/src (mkdtemp outside /repo and /verif, removed in a finally):
  * breaking variants: the reverse of every recorded `fix:` commit of this property (regress/) and every seeded change kept
    under seeded/ for this property -- the check is expected to fire (exit 1) and the evidence records whether it did;
  * behaviour-preserving twins computed on the AST of the modules the rule consulted: (a) the module re-emitted by
    ast.unparse (layout, comments, line numbers all change), (b) a local variable renamed consistently inside each anchored
    function -- the check must stay silent (exit 0).
Results go into the evidence file; they never change the exit code of the check itself.
"""
from __future__ import annotations

import ast
import builtins
import json
import os
import shutil
import subprocess
import sys
import tempfile
from concurrent.futures import ThreadPoolExecutor

from .report import REPO, VERIF


def _run_check(prop, src):
    c = subprocess.run([sys.executable, os.path.join(VERIF, "check"), prop, "--no-evidence", "--src", src], capture_output=True, text=True)
    first = next((l for l in c.stdout.splitlines() if l.startswith(("FINDING", "ANALYSIS-ERROR"))), "")
    return c.returncode, first[:300]


def _copy_src(tmp, name):
    dst = os.path.join(tmp, name)
    shutil.copytree(os.path.join(REPO, "src"), os.path.join(dst, "src"))
    return dst


class _Renamer(ast.NodeTransformer):
    def __init__(self, old, new):
        self.old, self.new = old, new

    def visit_Name(self, n):
        if n.id == self.old:
            n.id = self.new
        return n

    def visit_arg(self, n):
        return n


def _rename_locals(tree, every=False):
    """Rename, in every function, one plain local (assigned by a simple statement, never a parameter, global,
    attribute name or keyword argument name, not used in nested defs) to <name>_rn.  Returns number of renames."""
    count = 0
    for fn in [n for n in ast.walk(tree) if isinstance(n, (ast.FunctionDef, ast.AsyncFunctionDef))]:
        params = {a.arg for a in fn.args.posonlyargs + fn.args.args + fn.args.kwonlyargs}
        if fn.args.vararg:
            params.add(fn.args.vararg.arg)
        if fn.args.kwarg:
            params.add(fn.args.kwarg.arg)
        nested = [n for n in ast.walk(fn) if isinstance(n, (ast.FunctionDef, ast.AsyncFunctionDef, ast.Lambda, ast.ClassDef)) and n is not fn]
        nested_names = {x.id for n in nested for x in ast.walk(n) if isinstance(x, ast.Name)}
        kwnames = {k.arg for c in ast.walk(fn) if isinstance(c, ast.Call) for k in c.keywords if k.arg}
        declared = {n2 for g in ast.walk(fn) if isinstance(g, (ast.Global, ast.Nonlocal)) for n2 in g.names}
        stores = [n.id for n in ast.walk(fn) if isinstance(n, ast.Name) and isinstance(n.ctx, ast.Store)]
        for cand in dict.fromkeys(stores):
            if cand in params or cand in nested_names or cand in kwnames or cand in declared or cand.startswith("_") or hasattr(builtins, cand) or len(cand) < 3:
                continue
            if any(isinstance(s, ast.JoinedStr) for s in ast.walk(fn)) and False:
                continue
            # f-strings with `=` debugging or locals() would expose the name: skip functions using locals()/eval
            if any(isinstance(c, ast.Call) and isinstance(c.func, ast.Name) and c.func.id in ("locals", "eval", "exec", "vars") for c in ast.walk(fn)):
                break
            if cand.endswith("_rn"):
                continue
            _Renamer(cand, cand + "_rn").visit(fn)
            count += 1
            if not every:
                break
    return count


def _if_swap(tree):
    """if c: A else: B  ->  if not c: B else: A  (only plain if/else, no elif chains).  Returns number of swaps."""
    count = 0
    for n in ast.walk(tree):
        if isinstance(n, ast.If) and n.orelse and not (len(n.orelse) == 1 and isinstance(n.orelse[0], ast.If)):
            par_is_elif = False
            if not par_is_elif:
                n.test = n.test.operand if isinstance(n.test, ast.UnaryOp) and isinstance(n.test.op, ast.Not) else ast.UnaryOp(op=ast.Not(), operand=n.test)
                n.body, n.orelse = n.orelse, n.body
                count += 1
    return count


def _inert(tree):
    """Insert statements without effect (a `pass`, a string expression) at the start of every function body, loop body and if arm."""
    count = 0
    for n in ast.walk(tree):
        for fld in ("body", "orelse"):
            lst = getattr(n, fld, None)
            if isinstance(n, (ast.FunctionDef, ast.For, ast.While, ast.If)) and isinstance(lst, list) and lst:
                start = 1 if (isinstance(n, ast.FunctionDef) and isinstance(lst[0], ast.Expr) and isinstance(lst[0].value, ast.Constant)) else 0
                if isinstance(n, ast.FunctionDef) and any(isinstance(d, ast.Call) or True for d in n.decorator_list) and n.decorator_list:
                    continue  # numba-compiled kernels: leave alone
                lst.insert(start, ast.Pass())
                count += 1
    return count


def _hoist_temps(tree):
    """x = f(<compound arg>)  ->  tmp = <compound arg>; x = f(tmp)   for top-level assignments of functions (first positional argument only)."""
    count = 0
    for fn in [n for n in ast.walk(tree) if isinstance(n, ast.FunctionDef)]:
        if fn.decorator_list:
            continue
        used = {x.id for x in ast.walk(fn) if isinstance(x, ast.Name)} | {a.arg for a in ast.walk(fn) if isinstance(a, ast.arg)}
        new_body = []
        for st in fn.body:
            if isinstance(st, ast.Assign) and isinstance(st.value, ast.Call) and st.value.args and isinstance(st.value.args[0], (ast.BinOp, ast.Call, ast.Subscript)) \
                    and not any(isinstance(x, (ast.Lambda, ast.Starred, ast.NamedExpr, ast.Yield, ast.Await)) for x in ast.walk(st)):
                k = 0
                while f"hoisted_{k}" in used:
                    k += 1
                nm = f"hoisted_{k}"
                used.add(nm)
                new_body.append(ast.Assign(targets=[ast.Name(id=nm, ctx=ast.Store())], value=st.value.args[0], lineno=st.lineno))
                st.value.args[0] = ast.Name(id=nm, ctx=ast.Load())
                count += 1
            new_body.append(st)
        fn.body = new_body
    return count


def _cmp_flip(tree):
    """a < b -> b > a (all four orderings), a == b -> b == a, a != b -> b != a for single comparisons."""
    flip = {ast.Lt: ast.Gt, ast.Gt: ast.Lt, ast.LtE: ast.GtE, ast.GtE: ast.LtE, ast.Eq: ast.Eq, ast.NotEq: ast.NotEq}
    count = 0
    for n in ast.walk(tree):
        if isinstance(n, ast.FunctionDef) and n.decorator_list:
            continue
        if isinstance(n, ast.Compare) and len(n.ops) == 1 and type(n.ops[0]) in flip:
            n.left, n.comparators[0], n.ops[0] = n.comparators[0], n.left, flip[type(n.ops[0])]()
            count += 1
    return count


_PURE_CALLS = ("np.", "numpy.", "math.", "len", "range", "isinstance", "tuple", "list", "dict", "int", "float", "str", "abs", "min", "max", "sum", "zip", "enumerate", "type")


def _pure_simple(st):
    if not isinstance(st, ast.Assign) or len(st.targets) != 1:
        return False
    t = st.targets[0]
    if not (isinstance(t, ast.Name) or (isinstance(t, ast.Attribute) and isinstance(t.value, ast.Name) and t.value.id == "self")):
        return False
    for c in ast.walk(st.value):
        if isinstance(c, ast.Call):
            d = ast.unparse(c.func)
            if not (d.startswith(_PURE_CALLS) or d.endswith((".copy", ".get"))):
                return False
        if isinstance(c, (ast.Yield, ast.YieldFrom, ast.Await, ast.NamedExpr, ast.Lambda)):
            return False
    return True


def _rw(st):
    t = st.targets[0]
    w = {ast.unparse(t)}
    r = set()
    for x in ast.walk(st.value):
        if isinstance(x, ast.Name):
            r.add(x.id)
        elif isinstance(x, ast.Attribute):
            r.add(ast.unparse(x))
    return r, w


def _reorder(tree):
    """Swap adjacent, mutually independent, side-effect-free assignments (disjoint pairs) in every block."""
    count = 0
    for n in ast.walk(tree):
        if isinstance(n, ast.FunctionDef) and n.decorator_list:
            continue
        for fld in ("body", "orelse", "finalbody"):
            lst = getattr(n, fld, None)
            if not (isinstance(lst, list) and lst and isinstance(lst[0], ast.stmt)) or isinstance(n, (ast.ClassDef, ast.Module)):
                continue
            i = 0
            while i + 1 < len(lst):
                a, b = lst[i], lst[i + 1]
                if _pure_simple(a) and _pure_simple(b):
                    ra, wa = _rw(a)
                    rb, wb = _rw(b)
                    dep = any(w == x or x.startswith(w + ".") or w.startswith(x + ".") for w in wa for x in rb | wb) or any(w == x or x.startswith(w + ".") or w.startswith(x + ".") for w in wb for x in ra)
                    if not dep:
                        lst[i], lst[i + 1] = b, a
                        count += 1
                        i += 2
                        continue
                i += 1
    return count


TWINS = {"reorder": _reorder, "cmp-flip": _cmp_flip, "rename-locals": lambda t: _rename_locals(t, every=True), "if-swap": _if_swap, "inert": _inert, "hoist-temps": _hoist_temps}


def run_for(prop, rule, model):
    tmp = tempfile.mkdtemp(prefix="verif_selftest_")
    out = {"breaking": [], "preserving": []}
    try:
        jobs = []
        # ---- breaking variants
        idx = os.path.join(VERIF, "regress", "index.json")
        corpus = []
        if os.path.exists(idx):
            for e in json.load(open(idx)):
                if e["property"] == prop:
                    corpus.append(("reverted fix " + e["commit"], os.path.join(VERIF, e["patch"]), True))
        sd = os.path.join(VERIF, "seeded")
        if os.path.isdir(sd):
            for d in sorted(os.listdir(sd)):
                mp = os.path.join(sd, d, "meta.json")
                if os.path.exists(mp):
                    meta = json.load(open(mp))
                    if meta.get("property") == prop:
                        corpus.append(("seeded " + d, os.path.join(sd, d, "patch.diff"), bool(meta.get("expected_caught", True))))
        # behaviour-preserving refactorings written by isolated sub-agents (each with an old-vs-new equivalence script, see refactored/):
        # the check must not report a violation on them (exit 0, or exit 2 when the new shape is outside the recognised idioms)
        rd = os.path.join(VERIF, "refactored")
        refac = []
        if os.path.isdir(rd):
            for d in sorted(os.listdir(rd)):
                pp = os.path.join(rd, d, "patch.diff")
                if d.startswith(prop + "-") and os.path.exists(pp):
                    refac.append((d, pp))
        for i, (label, patch) in enumerate(refac):
            root = _copy_src(tmp, f"r{i}")
            r = subprocess.run(["patch", "-p1", "-s", "-d", root, "-i", patch], capture_output=True, text=True)
            if r.returncode != 0:
                out["preserving"].append(dict(variant="refactoring " + label, status="skipped: patch does not apply to the current tree"))
                continue
            jobs.append(("refactoring", "refactoring " + label, os.path.join(root, "src"), False))
        for i, (label, patch, expect) in enumerate(corpus):
            root = _copy_src(tmp, f"b{i}")
            r = subprocess.run(["patch", "-p1", "-s", "-d", root, "-i", patch], capture_output=True, text=True)
            if r.returncode != 0:
                out["breaking"].append(dict(variant=label, status="skipped: patch does not apply to the current tree"))
                continue
            jobs.append(("breaking", label, os.path.join(root, "src"), expect))
        # ---- preserving twins on the consulted modules
        from . import report, srcmodel

        ctx = report.Ctx(prop, "quick", model)
        try:
            rule.run(ctx)
        except Exception:
            pass
        mods = sorted(ctx.consulted)
        for kind in ("unparse",) + tuple(TWINS):
            root = _copy_src(tmp, f"p_{kind}")
            n_changed = 0
            for mn in mods:
                m = model.modules.get(mn)
                if m is None:
                    continue
                path = os.path.join(root, os.path.relpath(m.path, REPO))
                tree = ast.parse(m.source)
                if kind in TWINS:
                    n_changed += TWINS[kind](tree)
                else:
                    n_changed += 1
                new = ast.unparse(ast.fix_missing_locations(tree)) + "\n"
                compile(new, path, "exec")
                with open(path, "w") as fh:
                    fh.write(new)
            jobs.append(("preserving", f"{kind} of {len(mods)} consulted module(s), {n_changed} change(s)", os.path.join(root, "src"), False))
        with ThreadPoolExecutor(16) as ex:
            res = list(ex.map(lambda j: _run_check(prop, j[2]), jobs))
        for (cls, label, src, expect), (rc, first) in zip(jobs, res):
            if cls == "breaking":
                out["breaking"].append(dict(variant=label, expected="fires", exit=rc, ok=(rc == 1) == expect, first=first))
            elif cls == "refactoring":
                out["preserving"].append(dict(variant=label, expected="no violation (exit 0, or 2 = shape not recognised)", exit=rc, ok=rc != 1, first=first))
            else:
                out["preserving"].append(dict(variant=label, expected="silent", exit=rc, ok=rc == 0, first=first))
    finally:
        shutil.rmtree(tmp, ignore_errors=True)
    nb = [b for b in out["breaking"] if "ok" in b]
    return {
        "selftest": out,
        "selftest_summary": f"breaking variants caught {sum(1 for b in nb if b['exit'] == 1)}/{len(nb)}; "
                            f"preserving twins silent {sum(1 for p in out['preserving'] if p.get('ok'))}/{sum(1 for p in out['preserving'] if 'ok' in p)}",
    }
