"""Checker self-validation (thorough tier): filled in later."""


def run_for(prop, rule, model):
    return {"selftest": "not yet implemented"}
