#!/bin/bash
# Replay the regress corpus (and /tmp seeds when present) for the given properties; prints one line per patch.
cd "$(dirname "$0")/.."
for P in "$@"; do
  for f in regress/${P}_*.diff seeded/${P}*/patch.diff /tmp/seed/out/${P}/patch_*.diff; do
    [ -f "$f" ] || continue
    r=$(./tools/try_patch.py "$f" "$P" 2>/dev/null | tail -1)
    echo "$P $f :: $r"
  done
done
