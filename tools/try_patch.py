#!/usr/bin/env python3
"""tools/try_patch.py <patch.diff> [PROP ...]

Apply a patch to a scratch copy of /repo's current src tree (outside /repo and /verif, removed afterwards)
and run the quick checks against that copy.  Prints, per property, exit code and the first findings.
Used to evaluate seeded changes without touching /repo."""
import os, shutil, subprocess, sys, tempfile
from concurrent.futures import ThreadPoolExecutor

HERE = os.path.dirname(os.path.dirname(os.path.abspath(__file__)))
ALL = [f"C{i:02d}" for i in range(1, 21)]


def run(patch, props, verbose=True):
    tmp = tempfile.mkdtemp(prefix="verif_try_")
    try:
        shutil.copytree("/repo/src", os.path.join(tmp, "src"))
        r = subprocess.run(["patch", "-p1", "-s", "-d", tmp, "-i", os.path.abspath(patch)], capture_output=True, text=True)
        if r.returncode != 0:
            print("PATCH DOES NOT APPLY:", r.stdout[-400:], r.stderr[-400:])
            return None
        # must still compile
        bad = subprocess.run([sys.executable, "-m", "compileall", "-q", os.path.join(tmp, "src", "darsia")], capture_output=True, text=True)
        if bad.returncode != 0:
            print("PATCHED TREE DOES NOT COMPILE", bad.stdout[-300:])

        def one(p):
            c = subprocess.run([os.path.join(HERE, "check"), p, "--no-evidence", "--src", os.path.join(tmp, "src")], capture_output=True, text=True)
            return p, c.returncode, c.stdout

        with ThreadPoolExecutor(8) as ex:
            res = list(ex.map(one, props))
        out = {}
        for p, rc, txt in res:
            out[p] = rc
            if rc != 0 and verbose:
                lines = [l for l in txt.splitlines() if l.startswith(("FINDING", "ANALYSIS-ERROR", "UNRECOGNISED"))]
                print(f"== {p} exit {rc}")
                for l in lines[:4]:
                    print("   ", l[:330].replace(tmp, ""))
        fired = [p for p, rc in out.items() if rc == 1]
        broken = [p for p, rc in out.items() if rc == 2]
        print(f"fired: {fired}  analysis-errors: {broken}")
        return out
    finally:
        shutil.rmtree(tmp, ignore_errors=True)


if __name__ == "__main__":
    patch = sys.argv[1]
    props = sys.argv[2:] or ALL
    run(patch, props)
