#!/bin/sh
# Runs the pinned test suite of /repo (guard off: the verification needs no hooks) and
# compares with the stable-pass list in /root/.vp/BASELINE.json.  Usage: run_baseline.sh [repo_dir]
REPO=${1:-/repo}
OUT=$(mktemp -d)
cd "$REPO" && /venv/bin/python -m pytest -ra -q -p no:cacheprovider --timeout=900 --continue-on-collection-errors -n ${VERIF_JOBS:-8} --junitxml="$OUT/junit.xml" >"$OUT/log" 2>&1
/venv/bin/python - "$OUT/junit.xml" <<'PY'
import json, sys, xml.etree.ElementTree as ET
base = json.load(open("/root/.vp/BASELINE.json"))
want = set(base["stable_pass"])
ok = set()
for tc in ET.parse(sys.argv[1]).getroot().iter("testcase"):
    name = tc.get("classname") + "::" + tc.get("name")
    if not any(ch.tag in ("failure", "error", "skipped") for ch in tc):
        ok.add(name)
missing = sorted(want - ok)
print(f"baseline: {len(want & ok)}/{len(want)} stable tests pass")
for m in missing:
    print("MISSING", m)
sys.exit(1 if missing else 0)
PY
rc=$?
rm -rf "$OUT"
exit $rc
