#!/bin/bash
# tools/all_quick.sh [--src DIR] : all 20 quick checks in parallel without touching the evidence files; one line per property.  Run after every change of an engine.
cd "$(dirname "$0")/.."
for i in $(seq -w 1 20); do echo C$i; done | xargs -P ${JOBS:-8} -I{} sh -c './check {} --no-evidence "$@" > /tmp/aq_{}.log 2>&1; echo "{} exit=$? $(grep -c KNOWN-FINDING /tmp/aq_{}.log) known"; rm -f /tmp/aq_{}.log' sh "$@" | sort | tr '\n' ';'; echo
