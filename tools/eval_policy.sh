#!/bin/bash
# eval_policy.sh : run each seeded change and each refactoring through the check of its own property; print a summary.
cd "$(dirname "$0")/.."
run() { f=$1; p=$2; r=$(./tools/try_patch.py $f $p 2>/dev/null | tail -1); if echo "$r" | grep -q "fired: \['"; then echo "1 $p $f"; elif echo "$r" | grep -q "analysis-errors: \['"; then echo "2 $p $f"; else echo "0 $p $f"; fi; }
export -f run
( for d in seeded/C*; do p=$(basename $d | cut -c1-3); echo "$d/patch.diff $p"; done ) | xargs -P 12 -L 1 bash -c 'run $0 $1' > /tmp/eval_seeds.txt
( for d in refactored/C*-R*; do p=$(basename $d | cut -c1-3); echo "$d/patch.diff $p"; done ) | xargs -P 12 -L 1 bash -c 'run $0 $1' > /tmp/eval_refac.txt
echo "seeds   (want 1): $(cut -c1 /tmp/eval_seeds.txt | sort | uniq -c | tr '\n' ' ')"
echo "refactor(want 0): $(cut -c1 /tmp/eval_refac.txt | sort | uniq -c | tr '\n' ' ')"
