#!/usr/bin/env python3
"""Assemble seeded/<ID>-Q and refactored/<ID>-R12 (S) / -R13 (T) from the round-10 sub-agent output (/tmp/seed10/out) and the confirmation log
(/tmp/seed10/confirm_round10.log); regenerate seeded/INDEX.md.  One-off helper, kept for the record of what was run (the code is the inline
script of the session; see tools/build_round9.py for the pattern)."""
