#!/bin/bash
# tools/confirm_round6.sh <ID> : re-confirm the sub-agent's deliverables of round 8 in a scratch worktree of /repo HEAD (removed afterwards).
# For I, J: demo passes on HEAD, fails with the patch, tree compiles, 123 unit tests pass.  For R: equiv.py passes on both, tests pass, demos of I and J pass with R.
ID=$1; OUT=/tmp/seed12/out/$ID; WT=/tmp/seed12/confirm/$ID
rm -rf $WT; git -C /repo worktree prune; git -C /repo worktree add --detach -q $WT HEAD || exit 3
cd $WT; export PYTHONPATH=$WT/src
for X in M N; do
  [ -f $OUT/$X/patch.diff ] || { echo "$ID $X MISSING"; continue; }
  timeout 300 /venv/bin/python $OUT/$X/demo.py >/dev/null 2>&1; dc=$?
  git apply $OUT/$X/patch.diff 2>/dev/null || { echo "$ID $X PATCH-DOES-NOT-APPLY"; git checkout -q -- .; continue; }
  /venv/bin/python -m compileall -q src/darsia >/dev/null 2>&1; cc=$?
  timeout 300 /venv/bin/python $OUT/$X/demo.py >/dev/null 2>&1; dp=$?
  t=$(timeout 1500 /venv/bin/python -m pytest -q -p no:cacheprovider -n 4 tests/unit 2>&1 | tail -1)
  st=$(git diff --shortstat)
  echo "$ID $X demo_clean=$dc demo_patched=$dp compile=$cc tests=[$t] diff=[$st]"
  git checkout -q -- .; git clean -fdq
done
if [ -f $OUT/R/patch.diff ]; then
  timeout 300 /venv/bin/python $OUT/R/equiv.py >/dev/null 2>&1; ec=$?
  git apply $OUT/R/patch.diff 2>/dev/null || echo "$ID R PATCH-DOES-NOT-APPLY"
  /venv/bin/python -m compileall -q src/darsia >/dev/null 2>&1; cc=$?
  timeout 300 /venv/bin/python $OUT/R/equiv.py >/dev/null 2>&1; ep=$?
  timeout 300 /venv/bin/python $OUT/M/demo.py >/dev/null 2>&1; di=$?
  timeout 300 /venv/bin/python $OUT/N/demo.py >/dev/null 2>&1; dj=$?
  t=$(timeout 1500 /venv/bin/python -m pytest -q -p no:cacheprovider -n 4 tests/unit 2>&1 | tail -1)
  st=$(git diff --shortstat)
  echo "$ID R equiv_clean=$ec equiv_patched=$ep compile=$cc demoI=$di demoJ=$dj tests=[$t] diff=[$st]"
  git checkout -q -- .; git clean -fdq
fi
cd /; git -C /repo worktree remove --force $WT
