#!/bin/bash
# Full self-validation outside the thorough tier (debugging aid): clean-tree runs, twins of every kind, regress + seeded corpus. Parallel.
cd "$(dirname "$0")/.."
P=$(for i in $(seq -w 1 20); do echo C$i; done)
echo "## clean tree"; echo $P | tr ' ' '\n' | xargs -P 10 -I{} sh -c './check {} --no-evidence 2>/dev/null | tail -1' | grep -v " 0 new violation" 
echo "## twins"; for k in rename-locals if-swap inert hoist-temps cmp-flip reorder; do echo $P | tr ' ' '\n' | xargs -P 10 -I{} sh -c "python3 tools/twin_report.py --all --kind=$k {} 2>/dev/null | grep '^==' | grep -v ': 0 failing'"; done
echo "## corpus"; echo $P | tr ' ' '\n' | xargs -P 10 -I{} sh -c './tools/corpus.sh {} 2>/dev/null' | grep -v "/tmp/seed/out/" | grep -v "fired: \['C[0-9]*'\]  analysis-errors: \[\]"
echo "## done"
