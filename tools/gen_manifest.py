#!/usr/bin/env python3
"""Regenerate /verif/MANIFEST.json from the table below (keeps it schema-valid)."""
import json, os

HERE = os.path.dirname(os.path.dirname(os.path.abspath(__file__)))

# id -> (category, technique, text, note)
CLAIMED = {
 "C18": ("other", "writer/reader key-table agreement with key -> attribute -> key round trip, BGR/RGB taint over reaching definitions, generic-reader reachability of savable corrections, constructor-argument dependence vs load write-set (ast, CFG)",
         "Decides: every metadata key an image class writes is consumed by the constructor chain of the class the npz reader instantiates "
         "for it and round-trips through its attribute; every cv2-decoded colour array is converted BGR->RGB before it reaches an optical "
         "image and every optical array written by cv2 comes from to_trichromatic('BGR'); byte strings map to the matching image kind; "
         "each correction that records a class name is visible to the generic reader, constructible without arguments and loads only keys "
         "it saved; every attribute read while correcting is restored by load or cannot be changed by a constructor argument. "
         "Not decided: identical pixel data / dtype after a file round trip, losslessness of codecs (numpy/cv2 I/O behaviour).",
         "Trusted: python ast parser; sa/cfg.py, sa/state.py; two attributes of CurvatureCorrection (use_cache, cache_path) are exempt by name with a reason."),
 "C19": ("other", "comprehension-structure and axis-discipline lint of the per-patch tables, polynomial normal forms of the corner/centre tables (min terms as atoms) against the axis table, provenance of the patch size, re-evaluation of the bounded-selection rule of Image.subregion (ast)",
         "Narrow claim. Decided: every per-patch table uses rows = outer index over num_patches[0] with pv[0]/ov[0] and columns = inner index "
         "over num_patches[1] with pv[1]/ov[1], and call/set/assemble address patches[row][col] alike; a patch is base.subregion(rois[i][j]) "
         "and subregion bounds the selection; local corners = global corners - corner 0; voxel and Cartesian corners are listed in the same "
         "order with the orientation the axis table prescribes; centres are corner 0 plus half a patch; whether both table families derive "
         "from one patch size (known finding for non-divisible extents). Not decided: gap-free / overlap-free tiling and exact re-assembly "
         "for every shape, count and overlap (integer inequalities with max/ceil/clipping: solver territory).",
         "Trusted: python ast parser; sa/algebra.py; C02.a/C20 tables."),
 "C11": ("other", "provenance of the metadata carried through each resampling/reduction, table-backed folding of the (matrix index, Cartesian axis) pair, polynomial normal form of the conservative factor, def-use slice of the coarsening step, option-chain binding lint (ast)",
         "Narrow claim. Decided: resize / refinement / equalisation keep dimensions and origin; axis reduction removes the dimension and "
         "origin component of the same axis under either spelling (table-backed, dims 2-3); extrusion prepends the height on matrix axis 0; "
         "sum/average are np.sum over the reduced axis (divided by its extent); the conservative factor is input voxels / output voxels "
         "applied after the channel merge; every value computed for coarsening flows into the result and lengths come from the running "
         "array; every interpolation option binds its flag. Not decided: equality of integrals before/after (cv2.resize / warpPerspective "
         "arithmetic; exact conservation for non-constant data on odd extents), superposition equals addition.",
         "Trusted: python ast parser; sa/fold.py, sa/algebra.py. Several obligations compare normalised statement text of the anchored functions."),
 "C14": ("other", "symbolic folding of the dofs guard chains over their finite documented domain, polynomial normal forms of label-wise vs homogeneous formulas and of numba summands vs kernel definitions, exhaustive folding of the polynomial index decoding (ast)",
         "Decides: every documented dofs value (None, 'all', every sub-list in both orders) of the five model classes reaches exactly one "
         "update call with the parameter slots routed in declaration order; combined models compose sequentially and consume parameters "
         "left to right; the label-wise linear model applies the homogeneous formula per label under a well-typed resolution guard; static "
         "thresholds use the same strict operators in both variants; clipping uses one pair of bounds; the accelerated kernel sums have "
         "the same summand as the kernel definition for every n; the polynomial space of degree 0..4 enumerates exactly the monomials of "
         "total degree <= d. Not decided: kernel interpolation reproducing values at its supports (conditioning), affine-ness as numbers.",
         "Trusted: python ast parser; sa/fold.py symbolic folder; sa/algebra.py; np.sum(np.multiply(x,y),axis=-1) treated as an opaque function of (x,y)."),
 "C13": ("other", "value-chain extraction of the staged pipeline per configuration branch, linear normal forms of the four difference options, effect summary of the probe argument (ast)",
         "Decides for every input and both stage orders: the stages run in the documented order, each on exactly the previous stage's "
         "result, each being the identity when its operator is absent; the four difference options are I-B, clip0(I-B), clip0(B-I), "
         "|I-B| (B = 0 without baseline), so positive+negative=absolute, positive-negative=plain and the baseline maps to 0 in real "
         "arithmetic; the probe is deep-copied and never written; the result carries the probe's metadata and is scalar exactly "
         "when one axis was reduced. Not decided: numerical behaviour of user-supplied stages.",
         "Trusted: python ast parser; skimage.util.compare_images(a, b, method='diff') = |a - b| (frozen external fact); sa/effects.py."),
 "C12": ("other", "non-commutative normal forms of the accumulated balance against the application convention read from apply_balance; pack/unpack layout agreement of the fit; stage-order provenance (ast)",
         "Decides for every swatch set and stage sequence: the accumulated scaling/translation equals sequential application of the "
         "stages under the operand side apply_balance actually uses (convention-relative, all modes); each fit starts at the current "
         "balance with a packing the objective inverts and applies the candidate on the same side; the staged fit uses the "
         "pre-balanced swatches; colour correction runs diagonal -> affine/linear -> apply on one object. "
         "Not decided: recovery of exact maps within optimiser tolerance (Powell's behaviour).",
         "Trusted: python ast parser; sa/algebra.py NC normal forms; scipy's Powell evaluates x0 first."),
 "C10": ("other", "structural check of the shared correction workflow + interprocedural alias/effect summaries of every correct_array + inactive-flag short-circuit lint (ast, CFG reaching definitions)",
         "Decides for every correction class and input kind: the shared __call__ implements copy vs overwrite for arrays and images and is "
         "not overridden; no correction can write through to a non-overwritten input (a view handed to correct_array AND an effect "
         "summary that mutates the array parameter are both needed); series are corrected slice by slice on the right axis and re-stacked "
         "on the time axis; every correction that stores an `active` flag short-circuits on it without touching other state; "
         "construction-time corrections run in order, in place. Not decided: pixel equality with the raw-array result, neutral-parameter numerics.",
         "Trusted: python ast parser; sa/effects.py (may-alias, flow-sensitive for locals, external libraries by a frozen table of views/copies/mutators)."),
 "C17": ("other", "interprocedural alias-and-mutation (effect) summaries over a registry of ~70 call forms, shared-metadata in-place-write lint, global-RNG who-may-call rule, type-tag folding of the scalar guard (ast, CFG)",
         "Decides for every input and call chain: none of the registry forms documented to return a new object has a mutation event rooted at "
         "a protected argument (under resolved callee summaries, with keyword-dependent forms specialised); no in-place write into "
         "dimensions/date/time lists that derived images share; no call re-seeds the global RNG; the scalar guard of multiplication "
         "accepts every documented type; each operator applies its own operation to both operands' data. "
         "Not decided: element-wise numerical agreement with raw-array arithmetic.",
         "Trusted: python ast parser; sa/effects.py as above; effects on objects reached only through **kwargs values are reported at the callee (Image.__init__) and not propagated to callers."),
 "C09": ("other", "matrix-word normal forms of the stored forward/inverse rotation pairs and of call_array/inverse_array (substitution + cancellation), table-backed sign elimination, stage-chain and mask provenance of the pull-back warp (ast)",
         "Decides in exact algebra, for every parameter choice and number of rotation factors: each separately stored inverse rotation is "
         "the inverse of the forward one (negated generators, mirrored accumulation side, identity start), inverse_array(call_array(X)) "
         "and the converse reduce to X, typed wrapping is symmetric, the warp pulls destination voxel centres back through the inverse "
         "map into source voxels with a two-sided mask applied identically on both sides, results are labelled with the destination "
         "system; the floor-based voxel conversion is C01.d. Not decided: orthonormality/determinant to tolerance, exact array equality "
         "for identity/shift/quarter turn, fitted parameters.",
         "Trusted: python ast parser; sa/algebra.py (NC words with Poly coefficients); Rotation.from_rotvec(v) is a group generator with inverse from_rotvec(-v); np.linalg.inv(E) is E^-1."),
 "C06": ("other", "axis-map extraction of the shifted-slice blocks + affine normal forms of the interpolation factors + dispatch vocabulary (ast)",
         "Narrow claim. Decided per axis block: the divergence pairs sign (+,-) with (lower, higher) cell and the face area of the same "
         "axis; mass matrices are prod(voxel_size) on the diagonal; reconstruction writes component d from the faces of axis d with "
         "factors pt[d] / 1-pt[d] (sum 1) on the [:-1] / [1:] cells in Fortran order; face averages gather both neighbours; tangential "
         "reconstruction reads the orthogonal faces of both neighbours with a consistent 'no face' mask. "
         "Not decided: adjointness, reproduction of constant fields, behaviour on extents 1 and 2 (identities over all shapes/fields).",
         "Trusted: python ast parser; the C07.a facts about connectivity columns. Several obligations compare normalised expression text with the expected construction; a refactoring of those lines needs the rule to be re-confirmed."),
 "C07": ("other", "axis-map extraction of the connectivity / reverse-connectivity shifts, literal corner-table extraction with exhaustive check, provenance of the numbering expressions (ast)",
         "Decided: connectivity and reverse connectivity are built from mirrored [:-1]/[1:] shifts on the face's normal axis (exact inverse "
         "by construction, -1 elsewhere), all orders Fortran; face numbering is contiguous per axis with counts from the shape; interior "
         "faces exclude the outer layer of every tangential axis and exterior faces are the set difference (partition); every recorded "
         "corner index denotes a reference-cell corner on that face (exhaustive over the 34 literal stores) and the quadrature module's "
         "corner list agrees. Not decided: numpy slicing behaviour on thin / single-cell shapes (value dependent).",
         "Trusted: python ast parser; sa/fold.py for the literal tables. The corner-table clause is exhaustive; the others are structural necessary conditions."),
 "C05": ("other", "dispatch/provenance check of the front end + constant-folded quadrature tables behind the cost functional (ast)",
         "Narrow claim. Decided: the unified front end returns exactly what the back end it constructs returns (documented = dispatched "
         "methods, arguments passed through unmodified), and the cost functional integrates the Euclidean flux norm with positive "
         "weights that integrate linear functions exactly for every L1 mode and dimension (the stated mechanism of the first-moment bound). "
         "Not decided (numerical, declined): zero on identical inputs, symmetry, scaling, lower bounds, agreement with the unique 1-d flux "
         "or brute force, every cv2.EMD clause.",
         "Trusted: python ast parser; sa/fold.py. The metric laws themselves are statements about computed numbers and are outside this technique."),
 "C04": ("other", "CFG with exception edges: reaching-definition comparison of loop exits (status), relational must-dataflow of distance/flux coherence over all normal and exceptional paths, block-row comparison of every assembled system, backward slices of auxiliary outputs, enum dispatch exhaustiveness (ast)",
         "Decides for every iteration index and fault point at once: the 'converged' status can tell the exception-handler exit of the "
         "iteration from the stopping-criterion exit; on every return the reported distance is the l1 dissipation of the returned "
         "flux (facts killed by any in-place update or rebinding, restored by snapshot/restore); all six 3x3 systems carry the same "
         "mass-balance and constraint rows and the same right-hand side layout; auxiliary outputs derive from the returned solution; "
         "L1/mobility mode dispatch is exhaustive. Not decided: mass balance to linear-solver precision, Anderson mixing staying in "
         "the affine space, the pinned pressure value (numerical).",
         "Trusted: python ast parser; sa/cfg.py exception-edge model (every call/subscript/arithmetic in a try body may raise; BaseException not modelled); repository methods receiving the solution vector are assumed not to mutate it in place."),
 "C08": ("other", "option-vocabulary extraction + vocabulary-aware definite assignment per (formulation, back-end), setup-before-use typestate per formulation, non-commutative normal forms of the Schur-complement expressions (ast)",
         "Decides that every documented formulation is accepted and handled under one spelling, that for every accepted (formulation, "
         "direct/amg/cg) pair linear_solve takes a branch and assigns what it uses, that each branch only reads set-up data its own "
         "formulation defines, that elimination and back-substitution are D.J^-1.D^T / r_red - D.J^-1.r_flux / J^-1.(r_flux + DT.x) "
         "with the cached D/DT pair and the J^-1 of the same branch, and that a fresh set-up binds the solver. "
         "Not decided: equality of flux/pressure/multiplier across formulations up to tolerance; the shape-dependent CSC index surgery; PETSc (ksp) back-end.",
         "Trusted: python ast parser; sa/vocab.py, sa/algebra.py (non-commutative polynomials; .copy() transparent), sa/state.py summaries."),
 "C16": ("other", "hidden-state analysis (must-write dataflow, J1 value-independence, J2 key-vs-cache guards, J3 save/restore) over solver classes, default-argument instance lint, Anderson reset typestate, dominance of fresh-solver calls (ast, CFG)",
         "Decides for every call history at once the structural ways a result can depend on earlier calls: attributes written by a "
         "solver's own call closure and read before being rewritten (memo under hasattr, coefficients rebound during a cycle), shared "
         "default instances not refreshed before use, mutable default containers that are written, Anderson history not reset at "
         "iteration 0, a re-used distance object solving with a stale factorisation. "
         "Not decided: bit-identical results across interpreters where third-party caches (numba, pyamg) are involved.",
         "Trusted: python ast parser; sa/cfg.py, sa/state.py (name-based aliasing; attributes reached through containers are rooted at self; five attributes of the distance objects are exempt by name with a stated reason and a dedicated structural check)."),
 "C03": ("other", "hidden-state analysis: interprocedural must-write dataflow over CFGs + key-vs-cache guard justification (ast)",
         "Decides the history clause for every call sequence at once: each read of an attribute that integrate() itself writes is "
         "either preceded by a write in the same call on every path, or every write-free path crosses a guard that compares the "
         "data-derived key with the cache. Also: weights and cache are assigned together in every constructor; the weighted product "
         "is formed from the whole array and reduced over the spatial axes only. "
         "Not decided: that the value is the weighted sum / linear / resolution independent as numbers (cv2.resize arithmetic).",
         "Trusted: python ast parser; sa/cfg.py, sa/state.py (path-insensitive within a function; attribute aliasing through containers not tracked)."),
 "C02": ("other", "CFG + reaching definitions on Image.subregion (bounded-selection rule), provenance checks, package-wide time-axis idiom lint (ast)",
         "Decides, for every input and nesting depth at once, the conventions each extraction step relies on: every definition of the "
         "voxel selection that reaches the data subscript and the origin/extent computation is bounded to the image; one selection "
         "feeds data, origin and extent through the coordinate system and the axis table; scalar/vector time-axis subscripts agree "
         "package-wide and the same index addresses data, date and time; append/stack keep order. "
         "Not decided: equality of the extracted block with the parent's data as numbers, float coordinates under nesting.",
         "Trusted: python ast parser; sa/cfg.py reaching definitions (path-insensitive; a None selection is treated as infeasible). Structural necessary conditions only."),
 "C01": ("other", "table extraction + role-normalised affine normal forms of the forward/inverse maps + truncating-cast lint + symbolic folding of the typed conversion chains (ast)",
         "Decides the structural necessary conditions of the conversion property for every dimension and input at once: the axis "
         "table is a signed bijection; coordinate() is origin + s*voxel*voxel_size per axis, voxel() is the floor of an expression "
         "that composes with it to the identity (s*s=1), coordinate_vector is its linear part; default origins follow the table; "
         "no float->int truncation on an index path; every typed conversion pair has a branch through the coordinate system. "
         "Not decided: floating-point exactness of the results (floor under rounding stress, 'exactly the physical dimensions').",
         "Trusted: python ast parser; sa/fold.py, sa/algebra.py (Laurent polynomials, s*s=1). A pass is a proof of the real-arithmetic identities, not of float behaviour."),
 "C15": ("proof", "constant folding of the literal quadrature tables + exact-arithmetic identity check (ast)",
         "Every offered (dim, order) rule of gauss / gauss_reference_cell / reference_cell_corners is extracted from the "
         "source by constant folding and checked exhaustively in exact / 100-digit arithmetic: counts, positivity, total "
         "weight, tensor-grid structure, every monomial up to the nominal degree; plus the rules the transport-density "
         "consumer selects. The tables are finite literals, so this decides the whole property.",
         "Trusted: python ast parser; sa/fold.py model of literals, + - * / **, np.sqrt, np.array, np.ones, np.sum; 1e-60 tolerance on 100-digit Decimals."),
 "C20": ("proof", "decision-tree extraction of the three axis tables + signed-permutation normal form of the layout helpers + kind-flow lint (ast)",
         "The three hand-written axis tables are folded over their full finite domain and compared (bijection, inverse, "
         "round trip, 1d-3d); the layout helpers are reduced to signed axis permutations and composed; consumers "
         "(Image.slice, AxisReduction, patches) are checked by a kind-flow analysis and by folding AxisReduction.__init__ "
         "for str and int axes. Exhaustive over the finite tables the property quantifies over.",
         "Trusted: python ast parser; sa/fold.py; model of np.swapaxes/np.flip as signed permutations. Not decided: nothing numerical is involved."),
}

# clauses added after the first version of the rules (DESIGN.md 7.5); appended to the level text
ADDED = {
 "C17": "Also: Comparison / arithmetic operators that delegate to a helper are decided by a symbolic fold (C17.d).",
 "C07": "Also: Grid._setup is folded per dimension with a symbolic shape and compared in term normal form with the documented construction (rules/c07sem.py); corner tables are read off the folded stores.",
 "C01": "Also: coordinate/voxel/coordinate_vector are evaluated column-wise on symbolic points per dimension (loop and vectorised forms) against the table; the layout helpers fix the same orientation as the table (shared C20.b).",
 "C02": "Also: the selection is not reshaped after normalisation; CoordinateSystem.voxel/coordinate agree with the axis table (shared C01.b). Image.subregion is folded symbolically for slice / open-slice / VoxelArray / CoordinateArray regions in 2 and 3 dimensions and its result term compared in normal form with the documented construction (rules/c02sem.py). Absence of a time / offset is None, never falsiness (Image.append, _is_none).",
 "C03": "Also: geometry constructors do not modify their arguments; an array weight in darsia.weight is broadcast over all voxels. Arguments enter the geometry as passed (a re-binding may convert but not summarise them); cache reads through local aliases are followed by the hidden-state analysis. No stored quantity depends on num_voxels entries beyond the spatial ones; the folded integral must not depend on payload extents.",
 "C04": "Also: snapshots used for fallback are refreshed per iteration; a reused factorisation belongs to the matrix solved; each stopping criterion uses the tolerance of its own option; face_to_cell interpolates each component along its own axis (shared C06.c). Arrays reported in the info dictionary are not modified by later calls; assembled block operators are not rescaled as a whole; set-up methods carry no state (shared C08.f).",
 "C05": "Also: the cv2.EMD signature is in physical units with the voxel sizes on their own axes; shared C06.c. A reused factorisation belongs to the matrix solved (shared C04.g); the OpenCV back end does not modify the caller's images (shared C17.a, EMD forms). Homogeneity-degree analysis: every return path of _compute_face_weight gives (face weight, inverse) the degrees (1, -1) in the cell weights (sa/degree.py).",
 "C06": "Also: scalar / vector / tensor cell quantities select the scalar, component o, diagonal entry (o,o) for orientation o; the tangential operator returns one block per direction, concatenated in order. Face areas are the products of the other axes' voxel sizes (shared C07.d); face_to_cell is folded for 1-3 dimensions and its updates compared as polynomials.",
 "C08": "Also: the solution vector is written only through the solve / back-substitution index maps; cg stops on a relative criterion by default; callers reuse a factorisation only for the matrix it was built for (shared C04.g). Each back-end set-up method builds what it binds from its matrix argument (hidden-state analysis per set-up method, C08.f). previous_solution of every linear_solve call is an iterate, never the right-hand side; assembled operators carry the same unscaled rows (shared C04.c).",
 "C09": "Also: _src / _dst roles are not mixed in conversions, keyword arguments and attribute stores; truncating casts on the pull-back path (shared C01.d). The typed evaluation, the set_dtype tables, the warp assignment and the destination metadata are decided by symbolic folds; the shared correction workflow is a sub-rule (C10.a/c). set_parameters stores each passed parameter and keeps each omitted one (all subsets, folded).",
 "C10": "Also: result arrays are not kept on the correction object; Image keeps time_num equal to the number of slices under slicing and append (shared C02.c/d). The shared workflow is folded over input kind x overwrite x series x correct_array_series x scalar; contradictions (input modified, no copy, wrong stacking axis) are violations, other differences undecided.",
 "C11": "Also: the superposition canvas is the bounding box of the inputs with dimensions in matrix order; parity and half length of the coarsening step come from the running array. The function interface reduce_axis forwards axis, the image's space dimension and mode to AxisReduction (C11.g). Every Resize option is read under the key prefix; vectors are reduced at their own kind of position.",
 "C12": "Also: __call__ is find_balance followed by the class's own apply_balance; every return of find_balance has stored the fit. One application convention over every apply_balance (matrix product or einsum); restructured find_balance is folded per mode into non-commutative normal forms.",
 "C13": "Also: baseline and baseline collection are taken from the same (converted) list; metadata() -> constructor is a faithful round trip (shared C18.a). The learnt cleaning filter is bounded from below by 0 and dominates every extra baseline's reduced difference (term lower-bound analysis, C13.e). The default of the stage-order option is the documented order.",
 "C14": "Also: CombinedModel forwards exactly the extra arguments a part accepts (argument-count idiom table); the kernel matrix is filled on the full index square including the diagonal; factored-out kernel constants are re-added times the sum of weights. Label-wise models are folded for two labels; optional thresholds are tested with `is None`, never by truth value; compiled kernels may live at module level. The cached inverse is dropped whenever the supports are replaced.",
 "C15": "Also (level other): the consumer evaluates the field at the rule's own points through face_to_cell (shared C06.c).",
 "C16": "Also: update_params stores each coefficient whenever its own argument is given and forwards all of them. No attribute object is modified in place through an alias during a solver call.",
 "C18": "Also: what the npz reader reads reaches the constructor unmodified; byte strings and files are decoded with a flag that keeps bit depth and channels; attributes restored directly by load are written verbatim by save (including configuration methods). The reader class and the pass-through of array and metadata are decided by folding the reader per written key set; imread_from_bytes is folded per decoded shape (wrong kind = violation, unknown data term = undecided). An attribute written under its own key is read back from that key.",
 "C19": "Also: an altered selection in Image.subregion is a violation (shared C02.a/b). The per-patch tables are folded on a 2 x 3 grid and compared with the documented constructor; when equal but written differently the rules read the documented construction. The array that seeds the re-assembly carries the base image's dtype.",
 "C20": "Also (level other): index kinds are not mixed (matrix positions index matrix-ordered tables, Cartesian positions Cartesian-ordered vectors); CoordinateSystem agrees with the table (shared C01.b). The layout folder models ndim, transpose with explicit axes and tuple-axis flips. The auxiliary point that receives a physical cut is a float array of its own.",
}
COMMON = " Obligations are three-valued: a violation needs positive evidence (an extracted or folded value that differs, a dataflow fact, a named contradiction -- never mere dissimilarity from a template); code that is outside the recognised idioms ends in ANALYSIS-ERROR (exit 2), not in a violation (DESIGN.md 7.9). Every property additionally requires that no function of its anchor modules writes process-wide mutable state (module-/class-level containers), except memos keyed injectively on everything the value depends on and never modified in place."


# rules added in rounds 6 and 7 (DESIGN.md 7.12); appended after ADDED
ADDED2 = {
 "C01": "Rounds 6-7: a tolerance snap before the floor is a named contradiction; Image.opposite_corner is folded per dimension (value per axis against the table, dtype of the work array); accessors of Image carry no state (C01.f).",
 "C02": "Rounds 6-7: metadata round trip (constructor and metadata() of Image / ScalarImage / OpticalImage folded path-wise: every key comes back as passed); the stack of slices is stored as it is in append.",
 "C03": "Rounds 6-7: Geometry.integrate is folded path-wise (an integral without the voxel volume is a contradiction); stored voxelisation is consistent (voxel_size * num_voxels = dimensions for every call form); the interpolation handed to cv2.resize is the one selected (shared C11.i when integrate uses Resize); no scale-dependent shortcut (default absolute tolerance on data).",
 "C04": "Rounds 6-7: cell weights are the weight image's values (shared C05.e); the grid built for the image has the image's voxel counts and per-axis sizes (shared C07.d); no scale-dependent shortcut.",
 "C05": "Rounds 6-7: cell weights are the weight image's values, at most converted in type (C05.e); generate_grid / Grid.__init__ folded (shared C07.d); no scale-dependent shortcut (C05.f).",
 "C06": "Rounds 6-7: Grid.__init__ folded: dim, per-axis voxel sizes, face areas independent of the cell counts, tables untouched after set-up (shared C07.d).",
 "C07": "Rounds 6-7: C07.d is a fold of generate_grid (path-wise) and Grid.__init__ instead of a text comparison.",
 "C08": "Rounds 6-7: the shared fully reduced matrix keeps data and indices consistent (C08.h); amg / cg get the pure pressure matrix (C08.i; two known findings: flux_reduced with cg / amg); the preconditioner is handed over on every path; no scale-dependent shortcut (C08.j).",
 "C09": "Rounds 6-7: CoordinateSystem.coordinate / voxel against the axis table (shared C01.b).",
 "C10": "Rounds 6-7: attributes of self count as state of self in C10.f; correct_metadata does not write into the objects of the metadata it is given (C10.g); metadata round trip.",
 "C11": "Rounds 6-7: AxisReduction is folded per dimension, axis and mode against the documented construction; the interpolation that reaches cv2.resize is the one selected (C11.i); opposite corner and stateless accessors (shared C01.b / C01.f); metadata round trip.",
 "C12": "Rounds 6-7: default-argument arrays are not modified in place (shared-state lint); reference colours of CustomColorChecker are stored as given (C12.e); the balance is applied in its own precision.",
 "C13": "Rounds 6-7: metadata round trip (OpticalImage.metadata hands every entry back).",
 "C14": "Rounds 6-7: hidden-state analysis of the model classes (C14.i); parameter routing folded with stand-ins that return what the real sub-models return; supports keep the caller's order (C14.j; genuine defect repaired in /repo 935a7a3).",
 "C15": "Rounds 6-7 (level other): the cell weights that multiply the quadrature in transport_density are the weight image's values (shared C05.e).",
 "C16": "Rounds 6-7: solvers do not write into the arrays they are given (shared C17.a); a call leaves the TVD object as configured.",
 "C17": "Rounds 6-7: results of user-supplied callables may alias their arguments; copy=False forms that work in place.",
 "C18": "Rounds 6-7: restored attributes are not transformed after the restore; optional keys never written are dead reads; a squeeze of the decoded array names its axis; metadata keys are read by folding metadata(); metadata round trip.",
 "C19": "Rounds 6-7: metadata round trip.",
 "C20": "Rounds 6-7 (level other): Image.slice folded per dimension and letter (reduction axis and data subscript against the table); AxisReduction folded (shared C11.a).",
}
# rules added in round 8 (DESIGN.md 7.13); appended after ADDED2
ADDED3 = {
 "C01": "Round 8: AxisReduction folded per dimension, axis (name and matrix index) and mode (shared C11.a); extent keywords height / width / depth are resolved through the axis table (C01.g); num_voxels of an Image is read from the array, not from a stored value; the default origin is folded.",
 "C02": "Round 8: the axis table rule (shared C01.a); arrays pre-allocated for the stack of slices take the dtype of the result, not of one operand.",
 "C03": "Round 8: Image.append and its pre-allocation (shared C02.d).",
 "C04": "Round 8: magnitudes compared with a tiny fixed number (scale lint extended to the linalg wrappers); metadata round trip of the images a result is built from.",
 "C05": "Round 8: every initial Bregman shrink factor has degree -1 in the face weights (C05.g, sa/degree.py).",
 "C06": "Round 8: work arrays of the finite-volume operators are floating point whatever the input's dtype (C06.f); extent keywords (shared C01.g through C07.d).",
 "C07": "Round 8: Image.num_voxels / extent keywords / stateless accessors run inside C07.d.",
 "C08": "Round 8: the solution handed back is not an attribute of the solver (C08.k); every face mass matrix FVMass can hand out is diagonal (C08.l).",
 "C10": "Round 8: CoordinateSystem.voxel / coordinate folded (shared C01.b / C01.f); a result written back into the caller's buffer is a named contradiction; method calls on attribute-held objects are dispatched by name within a small family of definitions.",
 "C11": "Round 8: image constructors store the array they are given; np.kron refinement is a named contradiction of C11.d.",
 "C12": "Round 8: the correction workflow (shared C10.a); np.roll direction of the swatch positions (C12.f).",
 "C13": "Round 8: CombinedModel.__call__ applies every stage on every path (shared C14.b); a reduction applied after the maximum dominates nothing (C13.e).",
 "C14": "Round 8: no partial store into prescribed data that changes its type (C14.k); Masks[k] folded path-wise: the k-th mask belongs to the k-th label (C14.l).",
 "C17": "Round 8: option dictionaries (nested ones included) belong to the caller (C17.e).",
 "C18": "Round 8: TranslationEstimator carries no state from one call to the next (C18.f).",
 "C19": "Round 8: CoordinateSystem.num_voxels folded on every call of the Patches constructor: each length is divided by the voxel size of its own axis, no absolute tolerance (C19.d); per-axis quantities stay per axis (C19.e).",
 "C20": "Round 8 (level other): the layout fold also runs with one trailing payload axis; Patches / num_voxels axis pairing (shared C19.d); Image.slice folded (C20.c).",
}
# rules added in round 9 and the evidence policy (DESIGN.md 7.14); appended after ADDED3
ADDED4 = {
 "C01": "Round 9: a typed-voxel conversion (make_voxel) applied to a position that is not yet rounded is a named contradiction of C01.b.",
 "C02": "Round 9: the lower bound of a point-defined box is clipped at 0 before slice.indices() (named contradiction on the folded term).",
 "C03": "Round 9: the image stand-in of the integrate fold carries metadata tokens -- an integral that mentions one reads the image's own metadata; every cv2.resize of the voxel volumes is INTER_AREA on every path (C03.h); the state engine justifies a read in a helper at the helper's call sites.",
 "C04": "Round 9: rules run under ctx.guard, so the scale lint (C04.i) reports even when another rule cannot be evaluated.",
 "C05": "Round 9: the value of `weighted` in force at the transport_density calls that feed the distance and the reported density is the constant True (C05.b).",
 "C06": "Round 9: scale lint on utils/fv.py and utils/grid.py (C06.g); a whole row / column of the tensor in place of the entry (o, o) is a named contradiction (C06.d).",
 "C09": "Round 9: a parameter of set_parameters re-bound to a value-changing function of itself (np.clip, abs, round ...) is a named contradiction (C09.g); the warped array is not kept on the correction object (shared C10.f).",
 "C10": "Round 9: no test inside the loop over `transformations` reads the entry's own state (C10.e); callee effect summaries are specialised on the boolean flags the caller hands on.",
 "C11": "Round 9: the paste warp of superpose pads with zeros (C11.f); np.tile with a literal reps tuple is a named contradiction of the extrusion rule (C11.a).",
 "C12": "Round 9: swatches are fitted as given -- no find_balance re-binds them to an arithmetic function of themselves (C12.g); every stored balance comes from an optimiser / least-squares solve (C12.b).",
 "C13": "Round 9: hidden-state analysis of find_cleaning_filter: the filter learnt now does not contain the one learnt before (C13.f).",
 "C14": "Round 9: arrays that receive masked stores of model values are not allocated with the signal's dtype (C14.m); C14.j decided by folding setup_kernel_problem (helpers followed).",
 "C15": "Round 9: a kind of `order` the source admits beyond integers and 'max' (a sequence) is folded for sample tuples and held to the same exactness -- or the check is undecided.",
 "C16": "Round 9: an attribute of a shared default solver instance is set on every call or never (C16.c).",
 "C18": "Round 9: a module-/class-level memo whose value is read from a file is not a function of its key (state lint).",
 "C19": "Round 9: C19.d / C19.e always fold the real constructor (3 x 4 patches for the per-axis lists); statement-wise folds replace what a skipped statement binds by an `unknown` stand-in.",
}
POLICY = " Verdict policy, enforced mechanically since DESIGN.md 7.14: a failed obligation is a VIOLATION only with positive evidence -- stated explicitly by the rule, or by the table of value / dataflow rules in sa/evidence_rules.py; every other failed obligation is undecided (exit 2, no VIOLATION line)."
# round 10 (DESIGN.md 7.15); appended after ADDED4
ADDED5 = {
 "C09": "Round 10: the matrix algebra judges only terms written in its own symbols; an exception raised by the fold on a stand-in is not 'the code raises'.",
 "C13": "Round 10: order evidence only for chains followed back to the probe; tables scanned with next(<generator>) fold.",
 "C14": "Round 10: a refusal is a `raise` of the code or Python's own error on concrete values, never a missing attribute of a stand-in; generators held in variables end the fold.",
 "C17": "Round 10: operators spelled through the operator module and helpers (_combine / _compare) are followed; only recognised operator triples are judged.",
 "C18": "Round 10: restoring a written configuration is the identity -- _init_from_config folded on what return_config returns gives back every attribute (C18.g).",
}
# round 11 (DESIGN.md 7.16); appended after ADDED5
ADDED6 = {
 "C11": "Round 11: in the canvas metadata of superpose nothing unpacked after 'dimensions' / 'origin' overrides them (C11.f).",
 "C12": "Round 11: the least-squares fit is unconstrained -- no bounds / constraints on scipy.optimize.minimize (C12.b).",
 "C18": "Round 11: the branch of write() that converts to 8 bit is selected by the image's dtype alone, not by file name or options (C18.h); def-use chains follow names by word boundary.",
}
# round 12 (DESIGN.md 7.17); appended after ADDED6
ADDED7 = {
 "C01": "Round 12: dtype=int constructions of positions in the point module are truncating casts; the point factories keep the values they are given (C01.d).",
 "C02": "Round 12: C01.d shared (origin and opposite corner of a sub-image are built by the point factories).",
 "C04": "Round 12: the quadrature rules behind the reported cost are exact (C15 shared); the front end builds one grid from its first mass image (shared C07.d).",
 "C05": "Round 12: the quadrature rules behind the distance are exact (C15 shared).",
 "C06": "Round 12: the front end builds one grid, from its first mass image (shared C07.d).",
 "C07": "Round 12: wasserstein_distance builds one grid, from its first mass image, and hands it on unchanged (C07.d).",
 "C08": "Round 12: the direct back-end factorises with SuperLU's default pivoting (C08.m).",
 "C09": "Round 12: roles of locals bound to typed conversions (C09.f); integer voxels converted without going through voxel centres is a named contradiction (C09.d).",
 "C10": "Round 12: hidden-state analysis of every concrete correction with correct_array as entry (C10.h; CurvatureCorrection's documented grid cache exempt).",
 "C14": "Round 12: model __call__ methods name the extra arguments they use -- CombinedModel counts co_argcount (C14.g).",
 "C16": "Round 12: a reset at inner iteration 0 that also depends on the history left by earlier calls is a named contradiction (C16.d).",
 "C17": "Round 12: an in-place product on the copy keeps the array's dtype -- differs from raw-array arithmetic (C17.d).",
 "C18": "Round 12: every configuring method (not only the constructor) is a source of configuration that load must restore (C18.d); pickling of the typed point classes rebuilds an object of the same class (C18.i).",
 "C20": "Round 12 (level other): every call of the layout helpers passes the dimension of the array (C20.b).",
}
# round 13 (DESIGN.md 7.18)
ADDED8 = {
 "C03": "Round 13: a cache key that reads the data only through a projection of its shape (.size, .ndim, len()) does not cover a value computed from .shape (C03.a, J2 refined; applies to every hidden-state rule).",
 "C15": "Round 13: each request builds its own arrays -- no functools cache (decorator or module-level rebinding) around the three table functions (C15.d); the folded tables are those of every request, not only the first.",
 "C16": "Round 13: a reset() that keeps a history buffer on some path is a violation when __call__ writes its columns by the caller's iteration count and reads a slice sized by the restart counter (C16.d); otherwise undecided.",
 "C17": "Round 13: an augmented assignment to a metadata list (x.date += [...]) is an in-place write into a possibly shared list (C17.b).",
}
GENERIC2 = " For every property: no default-argument object is modified in place, and optional parameters (default None) of the anchored modules are compared with None, never tested by truth value."

NOT_YET = {}

def main():
    props = [json.loads(l) for l in open(os.path.join(HERE, "properties.jsonl"))]
    checks, na = [], []
    for p in props:
        pid = p["id"]
        if pid in CLAIMED:
            cat, tech, text, note = CLAIMED[pid]
            text = text + (" " + ADDED[pid] if pid in ADDED else "") + (" " + ADDED2[pid] if pid in ADDED2 else "") + (" " + ADDED3[pid] if pid in ADDED3 else "") + (" " + ADDED4[pid] if pid in ADDED4 else "") + (" " + ADDED5[pid] if pid in ADDED5 else "") + (" " + ADDED6[pid] if pid in ADDED6 else "") + (" " + ADDED7[pid] if pid in ADDED7 else "") + (" " + ADDED8[pid] if pid in ADDED8 else "") + COMMON + GENERIC2 + POLICY
            checks.append({
                "property_id": pid,
                "quick_cmd": f"./check {pid} --tier quick",
                "thorough_cmd": f"./check {pid} --tier thorough",
                "evidence_file": f"evidence/{pid}.json",
                "replay_cmd_template": f"./check {pid} --replay {{path}}",
                "engine": "sa",
                "level_claimed": {"category": cat, "text": text, "design_ref": f"DESIGN.md section 3, {pid}; section 7.5"},
                "level_note": note,
                "technique": tech,
            })
        else:
            na.append({"property_id": pid, "reason": NOT_YET.get(pid, "static check for the structural clauses (DESIGN.md section 3) not built yet in this round; no claim is made until it is")})
    man = {
        "version": 1,
        "setup_cmd": "true",
        "hooks": {
            "guard": "DARSIA_VERIF",
            "enable": "none needed: the checks only read /repo/src/darsia/**/*.py; no instrumentation exists",
            "baseline_off_cmd": "./tools/run_baseline.sh",
            "source_commits": [],
            "add_only": True,
        },
        "engines": [
            {"name": "sa", "path": "sa/", "serves_properties": sorted(CLAIMED),
             "kind_free_text": "repository-specific static analysis over python ast: resolved program model, constant folding / table extraction, algebraic normal forms, CFG with exception edges, effect and hidden-state analyses"},
        ],
        "checks": checks,
        "not_applicable": na,
        "notes": "Static analysis only (stdlib ast). Genuine defects found are repaired by 'fix:' commits in /repo or listed in known_findings.json; see DESIGN.md.",
    }
    with open(os.path.join(HERE, "MANIFEST.json"), "w") as f:
        json.dump(man, f, indent=1)
    print(f"{len(checks)} checks, {len(na)} not applicable")

if __name__ == "__main__":
    main()
