#!/usr/bin/env python3
"""Print the normalised source of a function: show_norm.py darsia.image.image Image.append"""
import ast, os, sys
sys.path.insert(0, os.path.dirname(os.path.dirname(os.path.abspath(__file__))))
from sa import srcmodel
m = srcmodel.Model()
f = m.func(sys.argv[1], sys.argv[2])
src = ast.unparse(f.node)
# drop docstring for brevity
print(src)
