#!/bin/bash
# tools/confirm_round11.sh <ID> : re-confirm the sub-agent's deliverables of round 10 in a scratch worktree of /repo HEAD (removed afterwards).
# S, T (refactorings): equiv.py passes on both trees, tree compiles, 123 unit tests pass, Q's demo passes with the patch.  Q (breaking): demo passes on HEAD, fails with the patch, tests pass.
ID=$1; OUT=/tmp/seed11/out/$ID; WT=/tmp/seed11/confirm/$ID
rm -rf $WT; git -C /repo worktree prune; git -C /repo worktree add --detach -q $WT HEAD || exit 3
cd $WT; export PYTHONPATH=$WT/src
for X in S T; do
  [ -f $OUT/$X/patch.diff ] || { echo "$ID $X MISSING"; continue; }
  timeout 300 /venv/bin/python $OUT/$X/equiv.py >/dev/null 2>&1; ec=$?
  git apply $OUT/$X/patch.diff 2>/dev/null || { echo "$ID $X PATCH-DOES-NOT-APPLY"; git checkout -q -- .; continue; }
  /venv/bin/python -m compileall -q src/darsia >/dev/null 2>&1; cc=$?
  timeout 300 /venv/bin/python $OUT/$X/equiv.py >/dev/null 2>&1; ep=$?
  timeout 300 /venv/bin/python $OUT/Q/demo.py >/dev/null 2>&1; dq=$?
  t=$(timeout 1500 /venv/bin/python -m pytest -q -p no:cacheprovider -n 4 tests/unit 2>&1 | tail -1)
  st=$(git diff --shortstat)
  echo "$ID $X equiv_clean=$ec equiv_patched=$ep compile=$cc demoQ=$dq tests=[$t] diff=[$st]"
  git checkout -q -- .; git clean -fdq
done
if [ -f $OUT/Q/patch.diff ]; then
  timeout 300 /venv/bin/python $OUT/Q/demo.py >/dev/null 2>&1; dc=$?
  git apply $OUT/Q/patch.diff 2>/dev/null || echo "$ID Q PATCH-DOES-NOT-APPLY"
  /venv/bin/python -m compileall -q src/darsia >/dev/null 2>&1; cc=$?
  timeout 300 /venv/bin/python $OUT/Q/demo.py >/dev/null 2>&1; dp=$?
  t=$(timeout 1500 /venv/bin/python -m pytest -q -p no:cacheprovider -n 4 tests/unit 2>&1 | tail -1)
  st=$(git diff --shortstat)
  echo "$ID Q demo_clean=$dc demo_patched=$dp compile=$cc tests=[$t] diff=[$st]"
  git checkout -q -- .; git clean -fdq
fi
cd /; git -C /repo worktree remove --force $WT
