#!/bin/bash
# tools/eval_all.sh : every corpus through the check of its own property: regress/ (want 1), seeded/ (want 1), refactored/ (want 0), and, when present,
# the not yet archived round under $EXTRA (directory with <ID>/<X>/patch.diff; R = refactoring).  Writes /tmp/eval_{regress,seeds,refac,extra}.txt.
cd "$(dirname "$0")/.."
run() { f=$1; p=$2; r=$(./tools/try_patch.py $f $p 2>/dev/null | tail -1); if echo "$r" | grep -q "fired: \['"; then echo "1 $p $f"; elif echo "$r" | grep -q "analysis-errors: \['"; then echo "2 $p $f"; else echo "0 $p $f"; fi; }
export -f run
J=${JOBS:-10}
python3 -c "
import json
for e in json.load(open('regress/index.json')): print(e['patch'], e['property'])" | xargs -P $J -L 1 bash -c 'run $0 $1' > /tmp/eval_regress.txt
( for d in seeded/C*; do p=$(basename $d | cut -c1-3); echo "$d/patch.diff $p"; done ) | xargs -P $J -L 1 bash -c 'run $0 $1' > /tmp/eval_seeds.txt
( for d in refactored/C*-R*; do p=$(basename $d | cut -c1-3); echo "$d/patch.diff $p"; done ) | xargs -P $J -L 1 bash -c 'run $0 $1' > /tmp/eval_refac.txt
if [ -n "$EXTRA" ]; then ( for f in $EXTRA/C*/*/patch.diff; do p=$(basename $(dirname $(dirname $f))); echo "$f $p"; done ) | xargs -P $J -L 1 bash -c 'run $0 $1' > /tmp/eval_extra.txt; fi
echo "regress (want 1): $(cut -c1 /tmp/eval_regress.txt | sort | uniq -c | tr '\n' ' ')"
echo "seeds   (want 1): $(cut -c1 /tmp/eval_seeds.txt | sort | uniq -c | tr '\n' ' ')"
echo "refactor(want 0): $(cut -c1 /tmp/eval_refac.txt | sort | uniq -c | tr '\n' ' ')"
[ -n "$EXTRA" ] && { echo "extra breaking (want 1): $(grep -v '/R/patch.diff' /tmp/eval_extra.txt | cut -c1 | sort | uniq -c | tr '\n' ' ')"; echo "extra refactor (want 0): $(grep '/R/patch.diff' /tmp/eval_extra.txt | cut -c1 | sort | uniq -c | tr '\n' ' ')"; }
