#!/usr/bin/env python3
"""List every obligation that fails on the behaviour-preserving twins (debugging aid)."""
import ast, os, shutil, subprocess, sys, tempfile, importlib, json
sys.path.insert(0, os.path.dirname(os.path.dirname(os.path.abspath(__file__))))
from sa import srcmodel, selftest, report
EVERY = "--all" in sys.argv
KIND = next((a.split("=")[1] for a in sys.argv if a.startswith("--kind=")), "rename-locals")
props = [a for a in sys.argv[1:] if not a.startswith("--")] or [f"C{i:02d}" for i in range(1, 21)]
m = srcmodel.Model()
for p in props:
    rule = importlib.import_module(f"sa.rules.{p.lower()}")
    from sa import flow; flow.set_model(m); ctx = report.Ctx(p, "quick", m); rule.run(ctx)
    mods = sorted(ctx.consulted)
    tmp = tempfile.mkdtemp(prefix="verif_twin_")
    try:
        shutil.copytree("/repo/src", tmp + "/src")
        for mn in mods:
            mod = m.modules[mn]
            path = os.path.join(tmp, os.path.relpath(mod.path, "/repo"))
            tree = ast.parse(mod.source); (selftest._rename_locals(tree, every=EVERY) if KIND == "rename-locals" else selftest.TWINS[KIND](tree))
            src_new = ast.unparse(ast.fix_missing_locations(tree)) + "\n"; compile(src_new, path, "exec"); open(path, "w").write(src_new)
        m2 = srcmodel.Model(tmp + "/src")
        from sa import flow; flow.set_model(m2)
        ctx2 = report.Ctx(p, "quick", m2)
        try:
            rule.run(ctx2)
            bad = [o for o in ctx2.obs if not o.ok]
            print(f"== {p}: {len(bad)} failing obligations on the {KIND} twin")
            for o in bad:
                print(f"   {o.rule} | {o.construct.split('.')[-2:]} | {o.detail[:90]} :: {o.msg[:110]}")
        except Exception as e:
            print(f"== {p}: EXCEPTION {type(e).__name__}: {e}")
    finally:
        shutil.rmtree(tmp, ignore_errors=True)
