#!/bin/bash
# tools/eval_round13.sh <ID>... : run the round-13 patches of the given properties through the check of their property (first-run record)
cd "$(dirname "$0")/.."
for ID in "$@"; do for X in X; do
  f=/tmp/seed13/out/$ID/$X/patch.diff; [ -f $f ] || continue
  r=$(./tools/try_patch.py $f $ID 2>/dev/null)
  code=0; echo "$r" | tail -1 | grep -q "fired: \['" && code=1; echo "$r" | tail -1 | grep -q "analysis-errors: \['" && code=2
  echo "## $ID $X exit=$code"; echo "$r" | grep -E "FINDING|UNRECOGNISED|ANALYSIS-ERROR" | head -3 | cut -c1-500
done; done
