#!/bin/bash
# refac.sh <ID>... : run the check of each property on its behaviour-preserving refactorings (/tmp/seed/out3) and show what it says
cd "$(dirname "$0")/.."
for p in "$@"; do for k in 1 2 3 4; do f=/tmp/seed/out3/$p/refactor_R$k.diff; [ -f $f ] || continue; out=$(./tools/try_patch.py $f $p 2>/dev/null); echo "## $p R$k :: $(echo "$out" | tail -1)"; echo "$out" | grep "FINDING\|ANALYSIS-ERROR\|UNRECOGNISED" | sed 's/property=C.. //; s#\.\./src/darsia/##; s/construct=darsia\.[a-z_.]*\././' | cut -c1-300 | head -${N:-3}; done; done
