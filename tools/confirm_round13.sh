#!/bin/bash
# tools/confirm_round13.sh <ID> : re-confirm the sub-agent's deliverable X of round 13 in a scratch worktree of /repo HEAD (removed afterwards):
# demo passes on HEAD, fails with the patch, tree compiles, 123 unit tests pass.
ID=$1; OUT=/tmp/seed13/out/$ID; WT=/tmp/seed13/confirm/$ID
rm -rf $WT; git -C /repo worktree prune; git -C /repo worktree add --detach -q $WT HEAD || exit 3
cd $WT; export PYTHONPATH=$WT/src
for X in X; do
  [ -s $OUT/$X/patch.diff ] || { echo "$ID $X MISSING"; continue; }
  timeout 300 /venv/bin/python $OUT/$X/demo.py >/dev/null 2>&1; dc=$?
  git apply $OUT/$X/patch.diff 2>/dev/null || { echo "$ID $X PATCH-DOES-NOT-APPLY"; git checkout -q -- .; continue; }
  /venv/bin/python -m compileall -q src/darsia >/dev/null 2>&1; cc=$?
  timeout 300 /venv/bin/python $OUT/$X/demo.py >/dev/null 2>&1; dp=$?
  t=$(timeout 1500 /venv/bin/python -m pytest -q -p no:cacheprovider -n 4 tests/unit 2>&1 | tail -1)
  st=$(git diff --shortstat)
  echo "$ID $X demo_clean=$dc demo_patched=$dp compile=$cc tests=[$t] diff=[$st]"
  git checkout -q -- .; git clean -fdq
done
cd /; git -C /repo worktree remove --force $WT
