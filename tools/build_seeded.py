#!/usr/bin/env python3
"""Assemble /verif/seeded/<ID>-<X>/ from a sub-agent's output directory and the confirmation log (one-off helper)."""
import json, os, re, shutil, subprocess, sys
OUTS = {"A": "/tmp/seed/out", "B": "/tmp/seed/out", "C": "/tmp/seed/out2", "D": "/tmp/seed/out2", "E": "/tmp/seed/out4", "F": "/tmp/seed/out4",
        "G": "/tmp/seed/out5", "H": "/tmp/seed/out5"}
# round 4 (E = a slip hidden inside a restructuring, F = a small edit in a helper / caller / sibling): files are named A / B in out4
SRC_LETTER = {"E": "A", "F": "B"}
LOGS = ["/tmp/seed/confirm_batch1.log", "/tmp/seed/confirm_batch2.log", "/tmp/seed/confirm_round2.log"]
LOG4 = "/tmp/seed/confirm_round4.log"
LOG5 = "/tmp/seed/confirm_round5.log"   # round 5: G = slip hidden in a restructuring of the least obvious clause, H = small edit in option / default / cache / dtype handling
MISSED = {"C01-B": "vectorised gather: needed the column-wise symbolic evaluation of the coordinate maps (C01.b)",
          "C10-B": "needed C10.f (results not shared with the object) and getattr aliasing in the effect engine",
          "C04-A": "needed C04.g (matrix version / fresh solver)", "C04-B": "needed C04.f (snapshot refreshed per iteration)",
          "C05-A": "needed C05.c (EMD physical units)", "C05-B": "needed the shared-state lint (class-level cache)",
          "C06-B": "needed the shared-state lint (process-wide cache)", "C08-B": "needed the solution-write whitelist in C08.c",
          "C09-B": "needed C01.d shared into C09 (truncating casts on the pull-back path)",
          "C11-B": "needed C11.f (superposition canvas = bounding box)",
          "C14-A": "first run ended in ANALYSIS-ERROR (loop target shape); rule made total", "C14-B": "first run ended in ANALYSIS-ERROR (return not a bare accumulator); rule now evaluates the returned form",
          "C15-B": "first run ended in ANALYSIS-ERROR; the shared-state lint now runs as a precondition and checks in-place modification of memoised objects",
          "C18-A": "needed the pass-through obligation in C18.a", "C18-B": "needed C18.e (verbatim save/load)",
          "C20-B": "first run ended in ANALYSIS-ERROR; memo key coverage now requires injective use of the argument",
          # round 2
          "C01-D": "reported by C20.b only; the layout-helper cross-check is now a sub-rule of C01 (C01.a/C20.b)",
          "C02-C": "reported by C01.b only; now a sub-rule of C02 (C02.b/C01.b)",
          "C03-C": "needed C03.e (array weights broadcast over voxels)", "C03-D": "needed C03.d (constructors do not modify their arguments)",
          "C04-C": "reported by C06.c only; now a sub-rule of C04 (C04.d/C06.c)", "C04-D": "needed C04.h (tolerance routing)",
          "C05-C": "reported by C06.c only; now a sub-rule of C05 (C05.b/C06.c)",
          "C06-C": "needed the scalar/vector/tensor arms in C06.d", "C06-D": "needed the __call__ obligation in C06.e",
          "C08-C": "needed C08.e (cg default atol)", "C08-D": "reported by C04.g only; now a sub-rule of C08 (C08.d/C04.g)",
          "C09-C": "needed C09.f (_src/_dst role agreement)", "C10-C": "reported by C02.d only; now a sub-rule of C10 (C10.c/C02.d)",
          "C11-C": "first run ended in ANALYSIS-ERROR (parity test shape); C11.d made total",
          "C12-C": "needed the must-store obligation in C12.b", "C12-D": "needed the __call__ obligation in C12.a",
          "C13-C": "needed the same-definitions obligation in C13.c", "C13-D": "reported by C18.a only; now a sub-rule of C13 (C13.d/C18.a)",
          "C14-C": "needed C14.g (argument-count idioms)", "C14-D": "needed C14.h (full kernel matrix)",
          "C15-C": "first run ended in ANALYSIS-ERROR (np.full not modelled by the folder)",
          "C15-D": "the edit is in face_to_cell (same edit as C04-C / C05-C), outside the statement of C15 proper; reported through the shared sub-rule C15.c/C06.c",
          "C16-C": "needed C16.g (update_params per parameter)", "C18-C": "needed the lossless-decode-flag obligation in C18.b",
          "C18-D": "needed the config-method branch of C18.e", "C19-C": "first run ended in ANALYSIS-ERROR; an altered selection is now a finding of C02.a",
          "C20-C": "needed C20.d (index kinds)", "C20-D": "C01/C02 ended in ANALYSIS-ERROR (starred zip, np.where not modelled), reported by C09 only; folder extended and C01.b shared into C20"}
conf = {}
for lg in LOGS:
    if os.path.exists(lg):
        for line in open(lg):
            m = re.match(r"(C\d\d) ([ABCD]) (.*)", line.strip())
            if m:
                conf[(m.group(1), m.group(2))] = m.group(3)
if os.path.exists(LOG4):
    for line in open(LOG4):
        m = re.match(r"(C\d\d) ([AB]) (.*)", line.strip())
        if m:
            conf[(m.group(1), {"A": "E", "B": "F"}[m.group(2)])] = m.group(3)
if os.path.exists(LOG5):
    for line in open(LOG5):
        m = re.match(r"(C\d\d) ([GH]) (.*)", line.strip())
        if m:
            conf[(m.group(1), m.group(2))] = m.group(3)
ROUND4_MISSED = {}
if os.path.exists("/verif/tools/round5_first_run.json"):
    MISSED.update(json.load(open("/verif/tools/round5_first_run.json")))
if os.path.exists("/verif/tools/round4_first_run.json"):
    ROUND4_MISSED = json.load(open("/verif/tools/round4_first_run.json"))
done = []
for (pid, x), line in sorted(conf.items()):
    if "demo_clean=0 demo_patched=1 compile=0 tests=[123 passed" not in line:
        print("NOT CONFIRMED", pid, x, line); continue
    src = f"{OUTS[x]}/{pid}"
    dst = f"/verif/seeded/{pid}-{x}"
    os.makedirs(dst, exist_ok=True)
    sx = SRC_LETTER.get(x, x)
    shutil.copy(f"{src}/patch_{sx}.diff", f"{dst}/patch.diff")
    shutil.copy(f"{src}/demo_{sx}.py", f"{dst}/demo.py")
    notes = open(f"{src}/notes.md").read()
    secs = re.split(r"(?m)^## ", notes)
    sec = next((s for s in secs[1:] if re.match(rf"(Change |Patch |Seed )?{sx}\b", s)), None) or (secs[1 + "ABCDEFGH".index(x) % 2] if len(secs) > 2 else notes)
    open(f"{dst}/notes.md", "w").write("## " + sec)
    r = subprocess.run(["/verif/tools/try_patch.py", f"{dst}/patch.diff", pid], capture_output=True, text=True)
    first = next((l.strip() for l in r.stdout.splitlines() if "FINDING" in l), "")
    rule = re.search(r"rule=(\S+)", first)
    fired = "fired: ['%s']" % pid in r.stdout
    need = re.search(r"(?is)needed to manifest:?\**\s*(.*?)(?:\n\s*[\*\-] (?:\*\*)?(?:demo|commands|patch|outcomes|confirm|why it hides|effect)|\n## |\Z)", sec)
    meta = dict(id=f"{pid}-{x}", property=pid, breaks=sec.splitlines()[0].strip(),
                needs_to_manifest=(need.group(1).strip()[:1500] if need else sec[:1500]),
                confirmed=dict(how="scratch git worktree of /repo HEAD under /tmp (removed afterwards): demo.py on the unchanged tree, git apply patch.diff, "
                                   "compileall, demo.py again, pytest -n 4 tests/unit", result=line),
                expected_caught=True, caught=fired, caught_by=rule.group(1) if rule else None, first_finding=first[:400],
                initially_missed=MISSED.get(f"{pid}-{x}") or ROUND4_MISSED.get(f"{pid}-{x}"))
    json.dump(meta, open(f"{dst}/meta.json", "w"), indent=1)
    done.append((f"{pid}-{x}", fired, meta["caught_by"]))
for d in done:
    print(*d)

# index
rows = []
for d in sorted(os.listdir("/verif/seeded")):
    mp = f"/verif/seeded/{d}/meta.json"
    if os.path.exists(mp):
        mt = json.load(open(mp))
        rows.append(mt)
with open("/verif/seeded/INDEX.md", "w") as fh:
    fh.write("# Seeded property-breaking changes (generated by tools/build_seeded.py)\n\n")
    fh.write("Every change was confirmed in a scratch worktree: demo passes on HEAD, fails with the patch, 123 unit tests pass with the patch.\n\n")
    fh.write("| id | breaks | reported by | first run |\n|---|---|---|---|\n")
    for mt in rows:
        fh.write(f"| {mt['id']} | {mt['breaks'][:110].replace('|', '/')} | {mt['caught_by'] if mt['caught'] else 'NOT REPORTED'} | {'reported' if not mt.get('initially_missed') else 'missed: ' + mt['initially_missed']} |\n")
    n = len(rows)
    fh.write(f"\n{n} changes; {sum(1 for r in rows if r['caught'])} reported by the check of their property on the current rules; {sum(1 for r in rows if not r.get('initially_missed'))} were reported by the rules as they stood when the change was written.\n")
print(len(rows), "entries;", sum(1 for r in rows if r["caught"]), "caught")
