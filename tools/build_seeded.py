#!/usr/bin/env python3
"""Assemble /verif/seeded/<ID>-<X>/ from a sub-agent's output directory and the confirmation log (one-off helper)."""
import json, os, re, shutil, subprocess, sys
OUT = "/tmp/seed/out"
LOGS = ["/tmp/seed/confirm_batch1.log", "/tmp/seed/confirm_batch2.log"]
MISSED = {"C01-B": "vectorised gather: needed the column-wise symbolic evaluation of the coordinate maps (C01.b)",
          "C10-B": "needed C10.f (results not shared with the object) and getattr aliasing in the effect engine",
          "C04-A": "needed C04.g (matrix version / fresh solver)", "C04-B": "needed C04.f (snapshot refreshed per iteration)",
          "C05-A": "needed C05.c (EMD physical units)", "C05-B": "needed the shared-state lint (class-level cache)",
          "C06-B": "needed the shared-state lint (process-wide cache)", "C08-B": "needed the solution-write whitelist in C08.c",
          "C09-B": "needed C01.d shared into C09 (truncating casts on the pull-back path)",
          "C11-B": "needed C11.f (superposition canvas = bounding box)",
          "C14-A": "first run ended in ANALYSIS-ERROR (loop target shape); rule made total", "C14-B": "first run ended in ANALYSIS-ERROR (return not a bare accumulator); rule now evaluates the returned form",
          "C15-B": "first run ended in ANALYSIS-ERROR; the shared-state lint now runs as a precondition and checks in-place modification of memoised objects",
          "C18-A": "needed the pass-through obligation in C18.a", "C18-B": "needed C18.e (verbatim save/load)",
          "C20-B": "first run ended in ANALYSIS-ERROR; memo key coverage now requires injective use of the argument"}
conf = {}
for lg in LOGS:
    if os.path.exists(lg):
        for line in open(lg):
            m = re.match(r"(C\d\d) ([AB]) (.*)", line.strip())
            if m:
                conf[(m.group(1), m.group(2))] = m.group(3)
done = []
for (pid, x), line in sorted(conf.items()):
    if "demo_clean=0 demo_patched=1 compile=0 tests=[123 passed" not in line:
        print("NOT CONFIRMED", pid, x, line); continue
    src = f"{OUT}/{pid}"
    dst = f"/verif/seeded/{pid}-{x}"
    os.makedirs(dst, exist_ok=True)
    shutil.copy(f"{src}/patch_{x}.diff", f"{dst}/patch.diff")
    shutil.copy(f"{src}/demo_{x}.py", f"{dst}/demo.py")
    notes = open(f"{src}/notes.md").read()
    secs = re.split(r"(?m)^## ", notes)
    sec = next((s for s in secs[1:] if re.match(rf"(Change |Patch |Seed )?{x}\b", s)), None) or (secs[1 + "AB".index(x)] if len(secs) > 2 else notes)
    open(f"{dst}/notes.md", "w").write("## " + sec)
    r = subprocess.run(["/verif/tools/try_patch.py", f"{dst}/patch.diff", pid], capture_output=True, text=True)
    first = next((l.strip() for l in r.stdout.splitlines() if "FINDING" in l), "")
    rule = re.search(r"rule=(\S+)", first)
    fired = "fired: ['%s']" % pid in r.stdout
    need = re.search(r"(?is)needed to manifest:?\**\s*(.*?)(?:\n\s*[\*\-] (?:\*\*)?(?:demo|commands|patch|outcomes|confirm|why it hides|effect)|\n## |\Z)", sec)
    meta = dict(id=f"{pid}-{x}", property=pid, breaks=sec.splitlines()[0].strip(),
                needs_to_manifest=(need.group(1).strip()[:1500] if need else sec[:1500]),
                confirmed=dict(how="scratch git worktree of /repo HEAD under /tmp (removed afterwards): demo.py on the unchanged tree, git apply patch.diff, "
                                   "compileall, demo.py again, pytest -n 4 tests/unit", result=line),
                expected_caught=True, caught=fired, caught_by=rule.group(1) if rule else None, first_finding=first[:400],
                initially_missed=MISSED.get(f"{pid}-{x}"))
    json.dump(meta, open(f"{dst}/meta.json", "w"), indent=1)
    done.append((f"{pid}-{x}", fired, meta["caught_by"]))
for d in done:
    print(*d)
